//! Compile-fail witnesses for C12 (a keyed hasher cannot be injected into a sketcher), each paired with a compiling
//! twin that differs only by the offending argument, so that a witness whose path is merely wrong cannot pass.
//! Run by `cargo +nightly test --doc` (the error code is only honoured on nightly) from a generated copy of this
//! crate whose `probminhash` dependency points at the tree being analysed.

/// SuperMinHash::new takes `BuildHasherDefault<H>`; a `RandomState` is a type error.
/// ```compile_fail,E0308
/// use std::collections::hash_map::RandomState;
/// let _s = probminhash::superminhasher::SuperMinHash::<f64, u64, fnv::FnvHasher>::new(10, RandomState::new());
/// ```
/// Twin (compiles):
/// ```
/// use std::hash::BuildHasherDefault;
/// let _s = probminhash::superminhasher::SuperMinHash::<f64, u64, fnv::FnvHasher>::new(10, BuildHasherDefault::<fnv::FnvHasher>::default());
/// ```
pub struct SuperMinHashWitness;

/// SetSketcher::new takes `BuildHasherDefault<H>`.
/// ```compile_fail,E0308
/// use std::collections::hash_map::RandomState;
/// let p = probminhash::setsketcher::SetSketchParams::default();
/// let _s = probminhash::setsketcher::SetSketcher::<u16, u64, fnv::FnvHasher>::new(p, RandomState::new());
/// ```
/// Twin (compiles):
/// ```
/// use std::hash::BuildHasherDefault;
/// let p = probminhash::setsketcher::SetSketchParams::default();
/// let _s = probminhash::setsketcher::SetSketcher::<u16, u64, fnv::FnvHasher>::new(p, BuildHasherDefault::<fnv::FnvHasher>::default());
/// ```
pub struct SetSketcherWitness;

/// OptDensMinHash::new takes `BuildHasherDefault<H>`.
/// ```compile_fail,E0308
/// use std::collections::hash_map::RandomState;
/// let _s = probminhash::densminhash::OptDensMinHash::<f64, u64, fnv::FnvHasher>::new(10, RandomState::new());
/// ```
/// Twin (compiles):
/// ```
/// use std::hash::BuildHasherDefault;
/// let _s = probminhash::densminhash::OptDensMinHash::<f64, u64, fnv::FnvHasher>::new(10, BuildHasherDefault::<fnv::FnvHasher>::default());
/// ```
pub struct OptDensWitness;

/// RevOptDensMinHash::new takes `BuildHasherDefault<H>`.
/// ```compile_fail,E0308
/// use std::collections::hash_map::RandomState;
/// let _s = probminhash::densminhash::RevOptDensMinHash::<f64, u64, fnv::FnvHasher>::new(10, RandomState::new());
/// ```
/// Twin (compiles):
/// ```
/// use std::hash::BuildHasherDefault;
/// let _s = probminhash::densminhash::RevOptDensMinHash::<f64, u64, fnv::FnvHasher>::new(10, BuildHasherDefault::<fnv::FnvHasher>::default());
/// ```
pub struct RevOptDensWitness;
