// pmh-facts: a rustc_private driver that serialises the type-checked program
// (items, HIR bodies with typeck results, MIR bodies with resolved callees) of one
// target crate as JSON.  Injected with RUSTC_WORKSPACE_WRAPPER; every other crate
// is compiled by plain rustc behaviour.
//
// env: PMH_TARGET_CRATE (default "probminhash"), PMH_FACTS_OUT (output file, required
// for the target crate), PMH_CONFIG (free text copied into the fact file).
#![feature(rustc_private)]
#![allow(rustc::usage_of_ty_tykind)]

extern crate rustc_abi;
extern crate rustc_ast;
extern crate rustc_driver;
extern crate rustc_hir;
extern crate rustc_interface;
extern crate rustc_middle;
extern crate rustc_session;
extern crate rustc_span;

mod json;
use json::J;

use rustc_driver::{Callbacks, Compilation};
use rustc_hir as hir;
use rustc_hir::def::{DefKind, Res};
use rustc_hir::def_id::{DefId, LocalDefId};
use rustc_interface::interface::Compiler;
use rustc_middle::mir;
use rustc_middle::ty::print::{with_no_trimmed_paths, PrintTraitRefExt};
use rustc_middle::ty::{self, TyCtxt, TypeckResults};
use rustc_span::{ExpnKind, Span};

struct NoCb;
impl Callbacks for NoCb {}

struct Cb {
    out: String,
    config: String,
}

impl Callbacks for Cb {
    fn after_analysis<'tcx>(&mut self, _c: &Compiler, tcx: TyCtxt<'tcx>) -> Compilation {
        let j = with_no_trimmed_paths!(dump_crate(tcx, &self.config));
        let mut s = String::with_capacity(1 << 24);
        j.write(&mut s);
        std::fs::write(&self.out, s).expect("pmh-facts: cannot write fact file");
        Compilation::Continue
    }
}

fn main() {
    let mut args: Vec<String> = std::env::args().collect();
    // RUSTC_WORKSPACE_WRAPPER: argv[1] is the path of the real rustc
    if args.len() > 1 && (args[1].ends_with("rustc") || args[1].contains("/rustc")) {
        args.remove(1);
    }
    let target = std::env::var("PMH_TARGET_CRATE").unwrap_or_else(|_| "probminhash".to_string());
    let mut crate_name = String::new();
    for i in 0..args.len() {
        if args[i] == "--crate-name" && i + 1 < args.len() {
            crate_name = args[i + 1].clone();
        }
    }
    let is_test = args.iter().any(|a| a == "--test");
    if crate_name == target && !is_test {
        let out = std::env::var("PMH_FACTS_OUT").expect("PMH_FACTS_OUT not set");
        let config = std::env::var("PMH_CONFIG").unwrap_or_default();
        let mut cb = Cb { out, config };
        rustc_driver::run_compiler(&args, &mut cb);
    } else {
        rustc_driver::run_compiler(&args, &mut NoCb);
    }
}

// ---------------------------------------------------------------------------------

fn s(x: impl Into<String>) -> J {
    J::Str(x.into())
}
fn n(x: usize) -> J {
    J::Num(x as i64)
}

fn span_json(tcx: TyCtxt<'_>, sp: Span) -> J {
    // location = outermost call site (user-written position); expansion info = innermost
    // and outermost expansion descriptors
    let from_exp = sp.from_expansion();
    let mut inner = String::new();
    let mut outer = String::new();
    if from_exp {
        let mut cur = sp;
        let mut first = true;
        while cur.from_expansion() {
            let d = cur.ctxt().outer_expn_data();
            let name = match d.kind {
                ExpnKind::Macro(_, sym) => format!("macro:{}", sym),
                ExpnKind::Desugaring(k) => format!("desugar:{:?}", k),
                ExpnKind::AstPass(k) => format!("astpass:{:?}", k),
                ExpnKind::Root => "root".to_string(),
            };
            if first {
                inner = name.clone();
                first = false;
            }
            outer = name;
            cur = d.call_site;
        }
    }
    let site = sp.source_callsite();
    let sm = tcx.sess.source_map();
    let lo = sm.lookup_char_pos(site.lo());
    let hi = sm.lookup_char_pos(site.hi());
    let file = match &lo.file.name {
        rustc_span::FileName::Real(r) => match r.local_path() {
            Some(p) => p.to_string_lossy().to_string(),
            None => format!("{:?}", r),
        },
        other => format!("{:?}", other),
    };
    J::Arr(vec![
        s(file),
        n(lo.line),
        n(lo.col.0 + 1),
        J::Bool(from_exp),
        s(inner),
        s(outer),
        n(hi.line),
    ])
}

fn defpath(tcx: TyCtxt<'_>, did: DefId) -> String {
    tcx.def_path_str(did)
}

fn dump_crate<'tcx>(tcx: TyCtxt<'tcx>, config: &str) -> J {
    let mut structs = Vec::new();
    let mut impls = Vec::new();
    let mut statics = Vec::new();
    let mut fns = Vec::new();
    let mut unsafe_sites: Vec<J> = Vec::new();
    let mut traits = Vec::new();

    let items = tcx.hir_crate_items(());
    for ldid in items.definitions() {
        let did = ldid.to_def_id();
        let kind = tcx.def_kind(did);
        match kind {
            DefKind::Struct | DefKind::Enum | DefKind::Union => {
                let adt = tcx.adt_def(did);
                let mut fields = Vec::new();
                if kind == DefKind::Struct {
                    for f in adt.non_enum_variant().fields.iter() {
                        let fty = tcx.type_of(f.did).instantiate_identity().skip_norm_wip();
                        fields.push(J::Obj(vec![
                            ("name", s(f.name.to_string())),
                            ("ty", s(format!("{}", fty))),
                            ("vis", s(format!("{:?}", f.vis))),
                        ]));
                    }
                }
                let hid = tcx.local_def_id_to_hir_id(ldid);
                let attrs: Vec<J> = tcx.hir_attrs(hid).iter().map(|a| s(format!("{:?}", a))).collect();
                structs.push(J::Obj(vec![
                    ("path", s(defpath(tcx, did))),
                    ("kind", s(format!("{:?}", kind))),
                    ("sp", span_json(tcx, tcx.def_span(did))),
                    ("fields", J::Arr(fields)),
                    ("attrs", J::Arr(attrs)),
                    ("vis", s(format!("{:?}", tcx.visibility(did)))),
                ]));
            }
            DefKind::Impl { of_trait } => {
                let self_ty = tcx.type_of(did).instantiate_identity().skip_norm_wip();
                let tr = if of_trait {
                    let t = tcx.impl_trait_ref(did).instantiate_identity().skip_norm_wip();
                    s(format!("{}", t.print_only_trait_path()))
                } else {
                    J::Null
                };
                let tr_def = if of_trait { s(defpath(tcx, tcx.impl_trait_id(did))) } else { J::Null };
                let its: Vec<J> = tcx
                    .associated_item_def_ids(did)
                    .iter()
                    .map(|d| s(defpath(tcx, *d)))
                    .collect();
                let is_unsafe = if of_trait {
                    format!("{:?}", tcx.impl_trait_header(did).safety).contains("Unsafe")
                } else {
                    false
                };
                let sp = tcx.def_span(did);
                if is_unsafe {
                    unsafe_sites.push(J::Obj(vec![
                        ("kind", s("impl")),
                        ("fn", s(defpath(tcx, did))),
                        ("sp", span_json(tcx, sp)),
                    ]));
                }
                impls.push(J::Obj(vec![
                    ("path", s(defpath(tcx, did))),
                    ("self_ty", s(format!("{}", self_ty))),
                    ("trait", tr),
                    ("trait_def", tr_def),
                    ("derived", J::Bool(tcx.is_automatically_derived(did))),
                    ("items", J::Arr(its)),
                    ("unsafe", J::Bool(is_unsafe)),
                    ("sp", span_json(tcx, sp)),
                ]));
            }
            DefKind::Trait => {
                traits.push(J::Obj(vec![("path", s(defpath(tcx, did))), ("sp", span_json(tcx, tcx.def_span(did)))]));
            }
            DefKind::Static { mutability, nested, .. } => {
                let ty = tcx.type_of(did).instantiate_identity().skip_norm_wip();
                let env = ty::TypingEnv::post_analysis(tcx, did);
                statics.push(J::Obj(vec![
                    ("path", s(defpath(tcx, did))),
                    ("ty", s(format!("{}", ty))),
                    ("mutable", J::Bool(mutability == hir::Mutability::Mut)),
                    ("nested", J::Bool(nested)),
                    ("freeze", J::Bool(ty.is_freeze(tcx, env))),
                    ("sp", span_json(tcx, tcx.def_span(did))),
                ]));
            }
            _ => {}
        }
    }

    let mut n_bodies = 0usize;
    for ldid in tcx.hir_body_owners() {
        let did = ldid.to_def_id();
        let kind = tcx.def_kind(did);
        if !matches!(kind, DefKind::Fn | DefKind::AssocFn | DefKind::Closure) {
            continue;
        }
        n_bodies += 1;
        let body = tcx.hir_body_owned_by(ldid);
        let tr = tcx.typeck(ldid);
        let mut obj: Vec<(&'static str, J)> = Vec::new();
        obj.push(("id", s(defpath(tcx, did))));
        obj.push(("kind", s(format!("{:?}", kind))));
        let parent = tcx.parent(did);
        obj.push(("parent", s(defpath(tcx, parent))));
        obj.push(("sp", span_json(tcx, tcx.def_span(did))));
        if matches!(kind, DefKind::Fn | DefKind::AssocFn) {
            obj.push(("vis", s(format!("{:?}", tcx.visibility(did)))));
            let sig = tcx.fn_sig(did).instantiate_identity().skip_norm_wip().skip_binder();
            let is_unsafe = format!("{:?}", sig.safety()).contains("Unsafe");
            obj.push(("unsafe", J::Bool(is_unsafe)));
            if is_unsafe {
                unsafe_sites.push(J::Obj(vec![
                    ("kind", s("fn")),
                    ("fn", s(defpath(tcx, did))),
                    ("sp", span_json(tcx, tcx.def_span(did))),
                ]));
            }
            let mut params = Vec::new();
            for (i, p) in body.params.iter().enumerate() {
                let ty = sig.inputs().get(i).map(|t| format!("{}", t)).unwrap_or_default();
                params.push(J::Obj(vec![("pat", pat_json(tcx, tr, p.pat)), ("ty", s(ty))]));
            }
            obj.push(("params", J::Arr(params)));
            obj.push(("ret", s(format!("{}", sig.output()))));
            if kind == DefKind::AssocFn {
                let p = tcx.parent(did);
                if matches!(tcx.def_kind(p), DefKind::Impl { .. }) {
                    let st = tcx.type_of(p).instantiate_identity().skip_norm_wip();
                    obj.push(("self_ty", s(format!("{}", st))));
                    obj.push(("impl", s(defpath(tcx, p))));
                    if let DefKind::Impl { of_trait: true } = tcx.def_kind(p) {
                        obj.push(("impl_trait", s(defpath(tcx, tcx.impl_trait_id(p)))));
                    }
                }
            }
            // HIR tree only for non-closure owners; closures are nested inside
            let mut cx = HirCx { tcx, tr, owner: defpath(tcx, did), unsafe_sites: &mut unsafe_sites };
            let h = cx.expr(body.value);
            obj.push(("hir", h));
        } else {
            let mut params = Vec::new();
            for p in body.params.iter() {
                params.push(J::Obj(vec![("pat", pat_json(tcx, tr, p.pat)), ("ty", s(format!("{}", tr.pat_ty(p.pat))))]));
            }
            obj.push(("params", J::Arr(params)));
        }
        obj.push(("mir", mir_json(tcx, ldid)));
        fns.push(J::Obj(obj));
    }

    let src_root = std::env::current_dir().map(|p| p.to_string_lossy().to_string()).unwrap_or_default();
    J::Obj(vec![
        ("crate", s(tcx.crate_name(rustc_span::def_id::LOCAL_CRATE).to_string())),
        ("src_root", s(src_root)),
        ("config", s(config)),
        ("rustc", s(option_env!("CFG_VERSION").unwrap_or("nightly").to_string())),
        ("n_bodies", n(n_bodies)),
        ("structs", J::Arr(structs)),
        ("impls", J::Arr(impls)),
        ("traits", J::Arr(traits)),
        ("statics", J::Arr(statics)),
        ("unsafe_sites", J::Arr(unsafe_sites)),
        ("fns", J::Arr(fns)),
    ])
}

// ------------------------------------------------------------------------- HIR

struct HirCx<'a, 'tcx> {
    tcx: TyCtxt<'tcx>,
    tr: &'tcx TypeckResults<'tcx>,
    owner: String,
    unsafe_sites: &'a mut Vec<J>,
}

fn res_json(tcx: TyCtxt<'_>, res: Res) -> J {
    match res {
        Res::Local(hid) => J::Obj(vec![("local", n(hid.local_id.as_usize())), ("name", s(tcx.hir_name(hid).to_string()))]),
        Res::Def(kind, did) => J::Obj(vec![("def", s(format!("{:?}", kind))), ("path", s(defpath(tcx, did)))]),
        Res::SelfCtor(did) | Res::SelfTyAlias { alias_to: did, .. } => {
            J::Obj(vec![("def", s("SelfTy")), ("path", s(defpath(tcx, did)))])
        }
        other => J::Obj(vec![("other", s(format!("{:?}", other)))]),
    }
}

fn pat_json<'tcx>(tcx: TyCtxt<'tcx>, tr: &'tcx TypeckResults<'tcx>, p: &hir::Pat<'tcx>) -> J {
    use hir::PatKind as P;
    let mut o: Vec<(&'static str, J)> = Vec::new();
    let k: &str;
    match p.kind {
        P::Wild => k = "Wild",
        P::Binding(mode, hid, ident, sub) => {
            k = "Bind";
            o.push(("id", n(hid.local_id.as_usize())));
            o.push(("name", s(ident.name.to_string())));
            o.push(("mode", s(format!("{:?}", mode))));
            if let Some(sp) = sub {
                o.push(("sub", pat_json(tcx, tr, sp)));
            }
        }
        P::Tuple(ps, _) => {
            k = "Tuple";
            o.push(("subs", J::Arr(ps.iter().map(|q| pat_json(tcx, tr, q)).collect())));
        }
        P::TupleStruct(ref qp, ps, _) => {
            k = "TupleStruct";
            o.push(("res", res_json(tcx, tr.qpath_res(qp, p.hir_id))));
            o.push(("subs", J::Arr(ps.iter().map(|q| pat_json(tcx, tr, q)).collect())));
        }
        P::Struct(ref qp, fs, _) => {
            k = "Struct";
            o.push(("res", res_json(tcx, tr.qpath_res(qp, p.hir_id))));
            o.push((
                "fields",
                J::Arr(
                    fs.iter()
                        .map(|f| J::Obj(vec![("name", s(f.ident.name.to_string())), ("pat", pat_json(tcx, tr, f.pat))]))
                        .collect(),
                ),
            ));
        }
        P::Ref(q, _, m) => {
            k = "Ref";
            o.push(("mut", J::Bool(m == hir::Mutability::Mut)));
            o.push(("sub", pat_json(tcx, tr, q)));
        }
        P::Box(q) | P::Deref(q) => {
            k = "Deref";
            o.push(("sub", pat_json(tcx, tr, q)));
        }
        P::Or(ps) => {
            k = "Or";
            o.push(("subs", J::Arr(ps.iter().map(|q| pat_json(tcx, tr, q)).collect())));
        }
        P::Expr(e) => {
            k = "Lit";
            o.push(("dbg", s(format!("{:?}", e.kind))));
        }
        _ => {
            k = "Other";
            o.push(("dbg", s(format!("{:?}", p.kind))));
        }
    }
    o.insert(0, ("k", s(k)));
    o.push(("ty", s(format!("{}", tr.pat_ty(p)))));
    o.push(("sp", span_json(tcx, p.span)));
    J::Obj(o)
}

impl<'a, 'tcx> HirCx<'a, 'tcx> {
    fn block(&mut self, b: &hir::Block<'tcx>, label: Option<String>) -> J {
        let mut stmts = Vec::new();
        for st in b.stmts {
            match st.kind {
                hir::StmtKind::Let(l) => {
                    let mut o: Vec<(&'static str, J)> = vec![("k", s("Let")), ("pat", pat_json(self.tcx, self.tr, l.pat))];
                    if let Some(i) = l.init {
                        o.push(("init", self.expr(i)));
                    }
                    if let Some(e) = l.els {
                        o.push(("els", self.block(e, None)));
                    }
                    o.push(("sp", span_json(self.tcx, st.span)));
                    stmts.push(J::Obj(o));
                }
                hir::StmtKind::Expr(e) | hir::StmtKind::Semi(e) => {
                    stmts.push(self.expr(e));
                }
                hir::StmtKind::Item(_) => {
                    stmts.push(J::Obj(vec![("k", s("Item")), ("sp", span_json(self.tcx, st.span))]));
                }
            }
        }
        let is_unsafe = matches!(b.rules, hir::BlockCheckMode::UnsafeBlock(hir::UnsafeSource::UserProvided));
        if is_unsafe {
            self.unsafe_sites.push(J::Obj(vec![
                ("kind", s("block")),
                ("fn", s(self.owner.clone())),
                ("sp", span_json(self.tcx, b.span)),
            ]));
        }
        let mut o: Vec<(&'static str, J)> = vec![
            ("k", s("Block")),
            ("id", n(b.hir_id.local_id.as_usize())),
            ("stmts", J::Arr(stmts)),
            ("unsafe", J::Bool(is_unsafe)),
            ("sp", span_json(self.tcx, b.span)),
        ];
        if let Some(e) = b.expr {
            o.push(("expr", self.expr(e)));
        }
        if let Some(l) = label {
            o.push(("label", s(l)));
        }
        J::Obj(o)
    }

    fn exprs(&mut self, es: &[hir::Expr<'tcx>]) -> J {
        J::Arr(es.iter().map(|e| self.expr(e)).collect())
    }

    fn expr(&mut self, e: &hir::Expr<'tcx>) -> J {
        use hir::ExprKind as E;
        let tcx = self.tcx;
        let tr = self.tr;
        let mut o: Vec<(&'static str, J)> = Vec::new();
        let k: &str;
        match e.kind {
            E::DropTemps(inner) | E::Type(inner, _) | E::Use(inner, _) => {
                return self.expr(inner);
            }
            E::Block(b, label) => {
                let mut j = self.block(b, label.map(|l| l.ident.name.to_string()));
                if let J::Obj(ref mut v) = j {
                    v.push(("ty", s(format!("{}", tr.expr_ty(e)))));
                    v.push(("eid", n(e.hir_id.local_id.as_usize())));
                }
                return j;
            }
            E::Lit(lit) => {
                k = "Lit";
                use rustc_ast::LitKind as L;
                let (lk, v) = match lit.node {
                    L::Int(v, _) => ("int", format!("{}", v.get())),
                    L::Float(sym, _) => ("float", sym.to_string()),
                    L::Bool(b) => ("bool", format!("{}", b)),
                    L::Str(sym, _) => ("str", sym.to_string()),
                    L::Char(c) => ("char", c.to_string()),
                    ref other => ("other", format!("{:?}", other)),
                };
                o.push(("lk", s(lk)));
                o.push(("v", s(v)));
            }
            E::Path(ref qp) => {
                k = "Path";
                o.push(("res", res_json(tcx, tr.qpath_res(qp, e.hir_id))));
                let args = tr.node_args(e.hir_id);
                if !args.is_empty() {
                    o.push(("substs", J::Arr(args.iter().map(|a| s(format!("{}", a))).collect())));
                }
            }
            E::Field(b, ident) => {
                k = "Field";
                o.push(("base", self.expr(b)));
                o.push(("name", s(ident.name.to_string())));
            }
            E::Index(b, i, _) => {
                k = "Index";
                o.push(("base", self.expr(b)));
                o.push(("idx", self.expr(i)));
                if let Some(d) = tr.type_dependent_def_id(e.hir_id) {
                    o.push(("def", s(defpath(tcx, d))));
                }
            }
            E::Unary(op, x) => {
                k = "Unary";
                o.push(("op", s(match op {
                    hir::UnOp::Deref => "*",
                    hir::UnOp::Not => "!",
                    hir::UnOp::Neg => "-",
                })));
                o.push(("e", self.expr(x)));
                if let Some(d) = tr.type_dependent_def_id(e.hir_id) {
                    o.push(("def", s(defpath(tcx, d))));
                }
            }
            E::Binary(op, l, r) => {
                k = "Binary";
                o.push(("op", s(op.node.as_str())));
                o.push(("l", self.expr(l)));
                o.push(("r", self.expr(r)));
                if let Some(d) = tr.type_dependent_def_id(e.hir_id) {
                    o.push(("def", s(defpath(tcx, d))));
                }
            }
            E::Assign(l, r, _) => {
                k = "Assign";
                o.push(("l", self.expr(l)));
                o.push(("r", self.expr(r)));
            }
            E::AssignOp(op, l, r) => {
                k = "AssignOp";
                o.push(("op", s(op.node.as_str())));
                o.push(("l", self.expr(l)));
                o.push(("r", self.expr(r)));
                if let Some(d) = tr.type_dependent_def_id(e.hir_id) {
                    o.push(("def", s(defpath(tcx, d))));
                }
            }
            E::Cast(x, _) => {
                k = "Cast";
                o.push(("e", self.expr(x)));
            }
            E::AddrOf(_, m, x) => {
                k = "AddrOf";
                o.push(("mut", J::Bool(m == hir::Mutability::Mut)));
                o.push(("e", self.expr(x)));
            }
            E::Call(f, args) => {
                k = "Call";
                o.push(("f", self.expr(f)));
                o.push(("args", self.exprs(args)));
                // resolve the callee when it is a path to a fn item
                if let ty::FnDef(did, substs) = tr.expr_ty(f).kind() {
                    o.push(("callee", s(defpath(tcx, *did))));
                    o.push(("substs", J::Arr(substs.iter().map(|a| s(format!("{}", a))).collect())));
                    if let Some(r) = resolve(tcx, tr.hir_owner.def_id, *did, substs) {
                        o.push(("resolved", s(r)));
                    }
                }
            }
            E::MethodCall(seg, recv, args, _) => {
                k = "MethodCall";
                o.push(("name", s(seg.ident.name.to_string())));
                o.push(("recv", self.expr(recv)));
                o.push(("args", self.exprs(args)));
                o.push(("recv_ty", s(format!("{}", tr.expr_ty_adjusted(recv)))));
                o.push(("recv_ty_unadj", s(format!("{}", tr.expr_ty(recv)))));
                if let Some(d) = tr.type_dependent_def_id(e.hir_id) {
                    o.push(("callee", s(defpath(tcx, d))));
                    let substs = tr.node_args(e.hir_id);
                    o.push(("substs", J::Arr(substs.iter().map(|a| s(format!("{}", a))).collect())));
                    if let Some(r) = resolve(tcx, tr.hir_owner.def_id, d, substs) {
                        o.push(("resolved", s(r)));
                    }
                }
            }
            E::Tup(es) => {
                k = "Tup";
                o.push(("es", self.exprs(es)));
            }
            E::Array(es) => {
                k = "Array";
                o.push(("es", self.exprs(es)));
            }
            E::Repeat(x, _) => {
                k = "Repeat";
                o.push(("e", self.expr(x)));
            }
            E::If(c, t, el) => {
                k = "If";
                o.push(("c", self.expr(c)));
                o.push(("t", self.expr(t)));
                if let Some(x) = el {
                    o.push(("e", self.expr(x)));
                }
            }
            E::Let(l) => {
                k = "LetExpr";
                o.push(("pat", pat_json(tcx, tr, l.pat)));
                o.push(("init", self.expr(l.init)));
            }
            E::Loop(b, label, src, _) => {
                k = "Loop";
                o.push(("src", s(format!("{:?}", src))));
                if let Some(l) = label {
                    o.push(("label", s(l.ident.name.to_string())));
                }
                o.push(("body", self.block(b, None)));
            }
            E::Match(x, arms, src) => {
                k = "Match";
                o.push(("src", s(format!("{:?}", src))));
                o.push(("e", self.expr(x)));
                let mut av = Vec::new();
                for a in arms {
                    let mut ao: Vec<(&'static str, J)> = vec![("pat", pat_json(tcx, tr, a.pat))];
                    if let Some(g) = a.guard {
                        ao.push(("guard", self.expr(g)));
                    }
                    ao.push(("body", self.expr(a.body)));
                    av.push(J::Obj(ao));
                }
                o.push(("arms", J::Arr(av)));
            }
            E::Closure(c) => {
                k = "Closure";
                let body = tcx.hir_body(c.body);
                o.push(("fn_id", s(defpath(tcx, c.def_id.to_def_id()))));
                let ps: Vec<J> = body.params.iter().map(|p| pat_json(tcx, tr, p.pat)).collect();
                o.push(("params", J::Arr(ps)));
                o.push(("body", self.expr(body.value)));
            }
            E::Break(dest, val) => {
                k = "Break";
                if let Ok(t) = dest.target_id {
                    o.push(("target", n(t.local_id.as_usize())));
                }
                if let Some(v) = val {
                    o.push(("e", self.expr(v)));
                }
            }
            E::Continue(dest) => {
                k = "Continue";
                if let Ok(t) = dest.target_id {
                    o.push(("target", n(t.local_id.as_usize())));
                }
            }
            E::Ret(v) => {
                k = "Ret";
                if let Some(v) = v {
                    o.push(("e", self.expr(v)));
                }
            }
            E::Struct(qp, fields, tail) => {
                k = "Struct";
                o.push(("res", res_json(tcx, tr.qpath_res(qp, e.hir_id))));
                let mut fv = Vec::new();
                for f in fields {
                    fv.push(J::Obj(vec![
                        ("name", s(f.ident.name.to_string())),
                        ("e", self.expr(f.expr)),
                        ("shorthand", J::Bool(f.is_shorthand)),
                    ]));
                }
                o.push(("fields", J::Arr(fv)));
                if let hir::StructTailExpr::Base(b) = tail {
                    o.push(("base", self.expr(b)));
                }
            }
            _ => {
                k = "Other";
                let d = format!("{:?}", e.kind);
                o.push(("dbg", s(d.chars().take(200).collect::<String>())));
            }
        }
        o.insert(0, ("k", s(k)));
        o.insert(1, ("id", n(e.hir_id.local_id.as_usize())));
        o.push(("ty", s(format!("{}", tr.expr_ty(e)))));
        let adj = tr.expr_ty_adjusted(e);
        if adj != tr.expr_ty(e) {
            o.push(("ty_adj", s(format!("{}", adj))));
        }
        o.push(("sp", span_json(tcx, e.span)));
        J::Obj(o)
    }
}

fn resolve<'tcx>(tcx: TyCtxt<'tcx>, body: LocalDefId, callee: DefId, args: ty::GenericArgsRef<'tcx>) -> Option<String> {
    let env = ty::TypingEnv::post_analysis(tcx, body.to_def_id());
    // try_resolve ICEs on args that still contain inference/erased regions in some positions;
    // erase regions first
    let args = tcx.erase_and_anonymize_regions(args);
    match std::panic::catch_unwind(std::panic::AssertUnwindSafe(|| ty::Instance::try_resolve(tcx, env, callee, args))) {
        Ok(Ok(Some(inst))) => Some(format!("{}", tcx.def_path_str_with_args(inst.def_id(), inst.args))),
        _ => None,
    }
}

// ------------------------------------------------------------------------- MIR

fn place_json<'tcx>(body: &mir::Body<'tcx>, tcx: TyCtxt<'tcx>, p: &mir::Place<'tcx>) -> J {
    let mut proj = Vec::new();
    for (i, el) in p.projection.iter().enumerate() {
        let _ = i;
        match el {
            mir::ProjectionElem::Deref => proj.push(s("deref")),
            mir::ProjectionElem::Field(f, _) => {
                // field name if the base is an ADT
                let base_ty = mir::Place::ty_from(p.local, &p.projection[..i], &body.local_decls, tcx);
                let mut name = String::new();
                if let ty::Adt(adt, _) = base_ty.ty.kind() {
                    let vidx = base_ty.variant_index.unwrap_or(rustc_abi::FIRST_VARIANT);
                    if let Some(v) = adt.variants().get(vidx) {
                        if let Some(fd) = v.fields.get(f) {
                            name = fd.name.to_string();
                        }
                    }
                }
                proj.push(J::Obj(vec![("f", n(f.as_usize())), ("name", s(name))]));
            }
            mir::ProjectionElem::Index(l) => proj.push(J::Obj(vec![("idx", n(l.as_usize()))])),
            mir::ProjectionElem::ConstantIndex { offset, .. } => proj.push(J::Obj(vec![("cidx", J::Num(offset as i64))])),
            mir::ProjectionElem::Downcast(sym, _) => proj.push(s(format!("downcast:{}", sym.map(|x| x.to_string()).unwrap_or_default()))),
            other => proj.push(s(format!("{:?}", other))),
        }
    }
    J::Obj(vec![("l", n(p.local.as_usize())), ("proj", J::Arr(proj))])
}

fn operand_json<'tcx>(body: &mir::Body<'tcx>, tcx: TyCtxt<'tcx>, op: &mir::Operand<'tcx>) -> J {
    match op {
        mir::Operand::Copy(p) => J::Obj(vec![("copy", place_json(body, tcx, p))]),
        mir::Operand::Move(p) => J::Obj(vec![("move", place_json(body, tcx, p))]),
        mir::Operand::Constant(c) => {
            let ty = c.const_.ty();
            let mut o = vec![("const", s(format!("{}", c.const_))), ("ty", s(format!("{}", ty)))];
            if let ty::FnDef(did, _) = ty.kind() {
                o.push(("fn", s(defpath(tcx, *did))));
            }
            J::Obj(o)
        }
        other => J::Obj(vec![("const", s(format!("{:?}", other))), ("ty", s(""))]),
    }
}

fn mir_json<'tcx>(tcx: TyCtxt<'tcx>, ldid: LocalDefId) -> J {
    let did = ldid.to_def_id();
    let body: &mir::Body<'tcx> = tcx.optimized_mir(did);
    let mut names: Vec<Option<String>> = vec![None; body.local_decls.len()];
    let mut dbg = Vec::new();
    for v in &body.var_debug_info {
        if let mir::VarDebugInfoContents::Place(p) = &v.value {
            if p.projection.is_empty() {
                names[p.local.as_usize()] = Some(v.name.to_string());
            }
            dbg.push(J::Obj(vec![("name", s(v.name.to_string())), ("place", place_json(body, tcx, p))]));
        }
    }
    let mut locals = Vec::new();
    for (l, d) in body.local_decls.iter_enumerated() {
        locals.push(J::Obj(vec![
            ("i", n(l.as_usize())),
            ("ty", s(format!("{}", d.ty))),
            ("name", match &names[l.as_usize()] {
                Some(x) => s(x.clone()),
                None => J::Null,
            }),
            ("mut", J::Bool(d.mutability == mir::Mutability::Mut)),
            ("sp", span_json(tcx, d.source_info.span)),
        ]));
    }
    let mut blocks = Vec::new();
    for (_bb, data) in body.basic_blocks.iter_enumerated() {
        let mut stmts = Vec::new();
        for st in &data.statements {
            match &st.kind {
                mir::StatementKind::Assign(b) => {
                    let (place, rv) = &**b;
                    let mut o: Vec<(&'static str, J)> = vec![("k", s("assign")), ("place", place_json(body, tcx, place))];
                    let mut r: Vec<(&'static str, J)> = Vec::new();
                    match rv {
                        mir::Rvalue::Use(op, _) => {
                            r.push(("k", s("use")));
                            r.push(("ops", J::Arr(vec![operand_json(body, tcx, op)])));
                        }
                        mir::Rvalue::Repeat(op, _) => {
                            r.push(("k", s("repeat")));
                            r.push(("ops", J::Arr(vec![operand_json(body, tcx, op)])));
                        }
                        mir::Rvalue::Ref(_, bk, p) => {
                            r.push(("k", s("ref")));
                            r.push(("mut", J::Bool(matches!(bk, mir::BorrowKind::Mut { .. }))));
                            r.push(("place", place_json(body, tcx, p)));
                        }
                        mir::Rvalue::RawPtr(kind, p) => {
                            r.push(("k", s("rawptr")));
                            r.push(("mut", J::Bool(format!("{:?}", kind).contains("Mut"))));
                            r.push(("place", place_json(body, tcx, p)));
                        }
                        mir::Rvalue::Cast(ck, op, ty) => {
                            r.push(("k", s("cast")));
                            r.push(("castk", s(format!("{:?}", ck))));
                            r.push(("to", s(format!("{}", ty))));
                            r.push(("ops", J::Arr(vec![operand_json(body, tcx, op)])));
                        }
                        mir::Rvalue::BinaryOp(op, b2) => {
                            r.push(("k", s("bin")));
                            r.push(("op", s(format!("{:?}", op))));
                            r.push(("ops", J::Arr(vec![operand_json(body, tcx, &b2.0), operand_json(body, tcx, &b2.1)])));
                        }
                        mir::Rvalue::UnaryOp(op, x) => {
                            r.push(("k", s("un")));
                            r.push(("op", s(format!("{:?}", op))));
                            r.push(("ops", J::Arr(vec![operand_json(body, tcx, x)])));
                        }
                        mir::Rvalue::Discriminant(p) => {
                            r.push(("k", s("discr")));
                            r.push(("place", place_json(body, tcx, p)));
                        }
                        mir::Rvalue::Aggregate(ak, ops) => {
                            r.push(("k", s("aggr")));
                            let a = match &**ak {
                                mir::AggregateKind::Adt(d, v, _, _, _) => {
                                    format!("adt:{}:{}", defpath(tcx, *d), v.as_usize())
                                }
                                mir::AggregateKind::Closure(d, _) => format!("closure:{}", defpath(tcx, *d)),
                                mir::AggregateKind::Tuple => "tuple".to_string(),
                                mir::AggregateKind::Array(_) => "array".to_string(),
                                other => format!("{:?}", other),
                            };
                            r.push(("aggr", s(a)));
                            r.push(("ops", J::Arr(ops.iter().map(|x| operand_json(body, tcx, x)).collect())));
                        }
                        mir::Rvalue::CopyForDeref(p) => {
                            r.push(("k", s("copyderef")));
                            r.push(("place", place_json(body, tcx, p)));
                        }
                        other => {
                            r.push(("k", s("other")));
                            r.push(("dbg", s(format!("{:?}", other))));
                        }
                    }
                    o.push(("rv", J::Obj(r)));
                    o.push(("sp", span_json(tcx, st.source_info.span)));
                    stmts.push(J::Obj(o));
                }
                mir::StatementKind::SetDiscriminant { place, .. } => {
                    stmts.push(J::Obj(vec![("k", s("setdiscr")), ("place", place_json(body, tcx, place))]));
                }
                mir::StatementKind::Intrinsic(i) => {
                    stmts.push(J::Obj(vec![("k", s("intrinsic")), ("dbg", s(format!("{:?}", i)))]));
                }
                _ => {}
            }
        }
        let term = data.terminator();
        let mut t: Vec<(&'static str, J)> = Vec::new();
        let succs: Vec<J> = term.successors().map(|b| n(b.as_usize())).collect();
        match &term.kind {
            mir::TerminatorKind::Goto { .. } => t.push(("k", s("goto"))),
            mir::TerminatorKind::SwitchInt { discr, targets } => {
                t.push(("k", s("switch")));
                t.push(("discr", operand_json(body, tcx, discr)));
                let vals: Vec<J> = targets.iter().map(|(v, b)| J::Arr(vec![s(format!("{}", v)), n(b.as_usize())])).collect();
                t.push(("vals", J::Arr(vals)));
                t.push(("otherwise", n(targets.otherwise().as_usize())));
            }
            mir::TerminatorKind::Return => t.push(("k", s("return"))),
            mir::TerminatorKind::Unreachable => t.push(("k", s("unreachable"))),
            mir::TerminatorKind::UnwindResume => t.push(("k", s("resume"))),
            mir::TerminatorKind::UnwindTerminate(_) => t.push(("k", s("terminate"))),
            mir::TerminatorKind::Drop { place, target, .. } => {
                t.push(("k", s("drop")));
                t.push(("place", place_json(body, tcx, place)));
                t.push(("target", n(target.as_usize())));
            }
            mir::TerminatorKind::Call { func, args, destination, target, .. } => {
                t.push(("k", s("call")));
                t.push(("func", operand_json(body, tcx, func)));
                let fty = func.ty(&body.local_decls, tcx);
                if let ty::FnDef(cd, substs) = fty.kind() {
                    t.push(("callee", s(defpath(tcx, *cd))));
                    t.push(("substs", J::Arr(substs.iter().map(|a| s(format!("{}", a))).collect())));
                    if let Some(r) = resolve(tcx, ldid, *cd, substs) {
                        t.push(("resolved", s(r)));
                    }
                }
                t.push(("args", J::Arr(args.iter().map(|a| operand_json(body, tcx, &a.node)).collect())));
                t.push((
                    "arg_tys",
                    J::Arr(args.iter().map(|a| s(format!("{}", a.node.ty(&body.local_decls, tcx)))).collect()),
                ));
                t.push(("dest", place_json(body, tcx, destination)));
                t.push(("target", match target {
                    Some(b) => n(b.as_usize()),
                    None => J::Null,
                }));
            }
            mir::TerminatorKind::Assert { cond, expected, msg, target, .. } => {
                t.push(("k", s("assert")));
                t.push(("cond", operand_json(body, tcx, cond)));
                t.push(("expected", J::Bool(*expected)));
                let (mk, ops): (&str, Vec<&mir::Operand<'tcx>>) = match &**msg {
                    mir::AssertKind::BoundsCheck { len, index } => ("bounds", vec![len, index]),
                    mir::AssertKind::Overflow(_, a, b) => ("overflow", vec![a, b]),
                    mir::AssertKind::OverflowNeg(a) => ("overflow_neg", vec![a]),
                    mir::AssertKind::DivisionByZero(a) => ("div_zero", vec![a]),
                    mir::AssertKind::RemainderByZero(a) => ("rem_zero", vec![a]),
                    mir::AssertKind::MisalignedPointerDereference { .. } => ("misaligned", vec![]),
                    mir::AssertKind::NullPointerDereference => ("nullptr", vec![]),
                    _ => ("other", vec![]),
                };
                t.push(("msg", s(mk)));
                if let mir::AssertKind::Overflow(op, _, _) = &**msg {
                    t.push(("op", s(format!("{:?}", op))));
                }
                t.push(("ops", J::Arr(ops.iter().map(|x| operand_json(body, tcx, x)).collect())));
                t.push((
                    "op_tys",
                    J::Arr(ops.iter().map(|x| s(format!("{}", x.ty(&body.local_decls, tcx)))).collect()),
                ));
                t.push(("target", n(target.as_usize())));
            }
            mir::TerminatorKind::FalseEdge { .. } => t.push(("k", s("falseedge"))),
            mir::TerminatorKind::FalseUnwind { .. } => t.push(("k", s("falseunwind"))),
            other => {
                t.push(("k", s("other")));
                t.push(("dbg", s(format!("{:?}", other))));
            }
        }
        // normal (non-unwind) successors
        let unwind_target: Option<usize> = match term.unwind() {
            Some(mir::UnwindAction::Cleanup(b)) => Some(b.as_usize()),
            _ => None,
        };
        t.push(("succs", J::Arr(succs)));
        t.push(("unwind", match unwind_target {
            Some(b) => n(b),
            None => J::Null,
        }));
        t.push(("sp", span_json(tcx, term.source_info.span)));
        blocks.push(J::Obj(vec![("stmts", J::Arr(stmts)), ("term", J::Obj(t)), ("cleanup", J::Bool(data.is_cleanup))]));
    }
    J::Obj(vec![
        ("argc", n(body.arg_count)),
        ("locals", J::Arr(locals)),
        ("debug", J::Arr(dbg)),
        ("blocks", J::Arr(blocks)),
    ])
}
