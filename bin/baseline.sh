#!/bin/sh
# the repository's own test run (guard off: there are no hooks), as in /root/.vp/BASELINE.json
cd /repo || exit 2
if command -v cargo-nextest >/dev/null 2>&1 && [ -f /w/lib/nextest.toml ]; then
  exec cargo nextest run --workspace --no-fail-fast --tool-config-file pb:/w/lib/nextest.toml --profile pb --test-threads 8 --offline
elif command -v cargo-nextest >/dev/null 2>&1; then
  exec cargo nextest run --workspace --no-fail-fast --tool-config-file pb:/verif/etc/nextest.toml --profile pb --test-threads 8 --offline
else
  exec cargo test --workspace --no-fail-fast --offline
fi
