#!/usr/bin/env python3
"""regenerates MANIFEST.json from the table below (kept in one place so it stays valid)"""
import json, os
V = os.path.dirname(os.path.dirname(os.path.abspath(__file__)))
props = [json.loads(l) for l in open(os.path.join(V, "properties.jsonl"))]

TB = ("Trusted: rustc's name resolution, type check and MIR construction; the pmh-facts driver's serialisation; "
      "the rule tables in pmh/rules (each row confirmed by reading the code); Python. A pass means the named "
      "structural clauses hold on every path of the current source; it does not establish the statistical behaviour.")

STRUCT_TXT = ("Decides named structural clauses of the property (each a necessary condition) on every path of the current source: %s. "
              "It does not decide the statistical / value-level behaviour, which no static argument in reach can bound.")

CLAIMED = {
 "C02": dict(category="other",
   text=STRUCT_TXT % "seed provenance by backward slice (item key only, never weight/index/tracker state); draw-protocol automaton inclusion for ProbMinHash3/3a/3aSha on the MIR CFG; guarded and paired register/signature writes; legitimacy of every loop exit and deferral filter (comparison with an unmodified tracker maximum); pure delegation of entry points; sibling agreement of idxmap/hashmap/Sha variants; per-item permutation reset",
   technique="custom static analysis over rustc HIR/MIR: backward slicing, CFG x DFA product, control-dependence of writes, loop-exit classification, sibling normal-form comparison",
   ref="DESIGN.md §4 C02"),
 "C04": dict(category="other",
   text=STRUCT_TXT % "guarded improving register writes for the five unweighted sketchers; provenance of written values and seeds; legitimacy of early exits (a_upper, lower_k with tabled strictness); exactly-once item_rank increment and marker discipline; per-item permutation reset; pure delegation of sketch_slice (+ finisher); paired stored hashes; order-insensitive tie-break of payload registers",
   technique="custom static analysis over rustc HIR: control-dependence and guard matching of register writes, backward slicing, loop-exit classification, dominance of reset over draw",
   ref="DESIGN.md §4 C04"),
 "C19": dict(category="proof",
   text="Full proof for all 2^32 / 2^64 inputs: the four functions are abstractly interpreted from their type-checked HIR in two exact domains (affine mod 2^w, GF(2)-affine bit matrices); obligations: hash is a bijection, inverse o hash = id, hash o inverse = id, per width; discharged by exact integer / bit-matrix arithmetic.",
   technique="abstract interpretation (exact affine mod 2^w and GF(2)-linear domains) over rustc HIR with segment cancellation",
   note="Trusted: rustc type check + driver serialisation, a dozen transfer functions in pmh/inv.py, Python integers. Statements outside the transfer functions are reported as cannot-establish.",
   ref="DESIGN.md §4 C19"),
}
NA = {
 "C01": "expectation / mean-squared-error over hash randomness: the truth lies in numeric rate constants, not in the shape of the code; its structural preconditions are decided under C02, C12, C14",
 "C03": "expectation and variance over hash randomness and a uniform-permutation law; structural preconditions are decided under C04 and C14",
 "C08": "expectation over hash randomness at every fill ratio; its anchored mechanisms are clauses of C04 and C09 and are decided there",
 "C15": "inductive invariant over array contents and index arithmetic of the implicit tree after any update history; needs a proof or model-checking run, not a dataflow or shape argument (the accessor shape it shares with pruning is checked under C02/C11)",
 "C16": "a distribution law; even the range clause [0,1) needs reasoning about transcendental constants that no static domain in reach provides",
}

def main():
    checks = []
    na = []
    for p in props:
        i = p["id"]
        if i in CLAIMED:
            c = CLAIMED[i]
            checks.append({
                "property_id": i,
                "quick_cmd": "bin/pmhcheck %s --tier quick" % i,
                "thorough_cmd": "bin/pmhcheck %s --tier thorough" % i,
                "evidence_file": "/verif/evidence/%s.json" % i,
                "replay_cmd_template": "cat {path}",
                "engine": "pmhcheck",
                "level_claimed": {"category": c["category"], "text": c["text"], "design_ref": c["ref"]},
                "level_note": c.get("note", TB),
                "technique": c["technique"],
            })
        else:
            na.append({"property_id": i, "reason": NA.get(i, "static rules for this property are not implemented yet in this commit (planned in DESIGN.md §4)")})
    m = {
        "version": 1,
        "setup_cmd": "bin/setup.sh",
        "hooks": {
            "guard": "probminhash_verif",
            "enable": "none needed: static analysis reads /repo's source through a rustc driver; the guard names an unused cfg and no hook commit exists",
            "baseline_off_cmd": "bin/baseline.sh",
            "source_commits": [],
            "add_only": True,
        },
        "engines": [{
            "name": "pmhcheck",
            "path": "bin/pmhcheck",
            "serves_properties": [c["property_id"] for c in checks],
            "kind_free_text": "static analysis: rustc_private driver (driver/) serialises the type-checked HIR and MIR of /repo with the real build's flags; Python rule library (pmh/) decides per-property rules on them; nothing in /repo is executed",
        }],
        "checks": checks,
        "notes": "Technique family: static analysis only. exit 0 = all rule instances hold, 1 = VIOLATION, 2 = ANALYSIS-ERROR (analysis could not be performed; never a pass). Repairs of nine genuine defects found by the rules are 'fix:' commits in /repo, listed as fixed in known_findings.json.",
        "not_applicable": na,
    }
    json.dump(m, open(os.path.join(V, "MANIFEST.json"), "w"), indent=1)

if __name__ == "__main__":
    main()
