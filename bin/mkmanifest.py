#!/usr/bin/env python3
"""regenerates MANIFEST.json from the table below (kept in one place so it stays valid)"""
import json, os
V = os.path.dirname(os.path.dirname(os.path.abspath(__file__)))
props = [json.loads(l) for l in open(os.path.join(V, "properties.jsonl"))]

TB = ("Trusted: rustc's name resolution, type check and MIR construction; the pmh-facts driver's serialisation; "
      "the rule tables in pmh/rules (each row confirmed by reading the code); Python. A pass means the named "
      "structural clauses hold on every path of the current source; it does not establish the statistical behaviour.")

STRUCT_TXT = ("Decides named structural clauses of the property (each a necessary condition) on every path of the current source: %s. "
              "It does not decide the statistical / value-level behaviour, which no static argument in reach can bound.")

CLAIMED = {
 "C02": dict(category="other",
   text=STRUCT_TXT % "seed provenance by backward slice (item key only, never weight/index/tracker state); draw-protocol automaton inclusion for ProbMinHash3/3a/3aSha on the MIR CFG; guarded and paired register/signature writes; legitimacy of every loop exit and deferral filter (comparison with an unmodified tracker maximum); pure delegation of entry points; sibling agreement of idxmap/hashmap/Sha variants; per-item permutation reset",
   technique="custom static analysis over rustc HIR/MIR: backward slicing, CFG x DFA product, control-dependence of writes, loop-exit classification, sibling normal-form comparison",
   ref="DESIGN.md §4 C02"),
 "C04": dict(category="other",
   text=STRUCT_TXT % "guarded improving register writes for the five unweighted sketchers; provenance of written values and seeds; legitimacy of early exits (a_upper, lower_k with tabled strictness); exactly-once item_rank increment and marker discipline; per-item permutation reset; pure delegation of sketch_slice (+ finisher); the crate's pass-through hashers assemble every byte exactly once; paired stored hashes; order-insensitive tie-break of payload registers",
   technique="custom static analysis over rustc HIR: control-dependence and guard matching of register writes, backward slicing, loop-exit classification, dominance of reset over draw",
   ref="DESIGN.md §4 C04"),
 "C19": dict(category="proof",
   text="Full proof for all 2^32 / 2^64 inputs: the four functions are abstractly interpreted from their type-checked HIR in two exact domains (affine mod 2^w, GF(2)-affine bit matrices); obligations: hash is a bijection, inverse o hash = id, hash o inverse = id, per width; discharged by exact integer / bit-matrix arithmetic.",
   technique="abstract interpretation (exact affine mod 2^w and GF(2)-linear domains) over rustc HIR with segment cancellation",
   note="Trusted: rustc type check + driver serialisation, a dozen transfer functions in pmh/inv.py, Python integers. Statements outside the transfer functions are reported as cannot-establish.",
   ref="DESIGN.md §4 C19"),
}
CLAIMED.update({
 "C05": dict(category="other",
   text=STRUCT_TXT % "SetSketcher::merge rejects on every parameter copied by new before its first effect (dominance), it leaves before the join only through those rejections, its only register effect is the element-wise max over the full range, lower_k is only set to 0 or raised to a min-fold of the registers, register writes of SuperMinHash/SetSketcher are guarded improvements, the histogram bound of SuperMinHash is right from the constructor on, every item is offered to the registers (no return before the last register write, draw loops left only when no register can improve, batch entry points are per-element delegations), reinit re-establishes the constructor state; no register field is mutated through a reference (ALIAS)",
   technique="custom static analysis over rustc HIR: dominance of rejecting comparisons over effects, write-shape matching, who-may-write rule for lower_k",
   ref="DESIGN.md §4 C05"),
 "C06": dict(category="other",
   text=STRUCT_TXT % "registers never decrease (guarded writes, element-wise max merge, no other writer, no mutation through a reference), the candidate register value has the shape max(0, min(q+1, floor(1 - ln x / ln b))) and every item makes its m draws at the cumulated spacings Exp1/(a(m-t)) (equality of rational functions) after resetting the slot permutation, reinit re-establishes the constructor state and the pruning bound, default() builds what new(default parameters) builds, the sketcher's estimate and the parallel estimator both equal m(1-1/b)/(a ln b SUM b^-K) as rational functions of the fields and the register sum, ln b being stored by every constructor as ln of the stored b, and the advertised relative standard deviation is sqrt(((b+1)/(b-1) ln b - 1)/m)",
   technique="custom static analysis over rustc HIR: guarded-write and writer rules, rational-function normal forms (polynomial cross-multiplication) for the estimator formulas and the spacing of the draw sequence, sibling comparison of the two estimators",
   ref="DESIGN.md §4 C06"),
 "C07": dict(category="other",
   text=STRUCT_TXT % "get_jaccard_bounds has no panic edge other than an argument precondition (MIR panic-edge inventory) and returns the statement's formulas J_up = (b^p-1)/(b-1), J_low = max(0, 2(b^(p/2+1/2)-1)/(b-1) - 1) (equality of rational functions with powers of b merged); structural preconditions of the collision model on SetSketcher::sketch: guarded register writes of the candidate value of the stated shape, legitimate early exits and full draw range, the spacing Exp1/(a(m-t)) of successive points (equality of rational functions), sound pruning bound, per-item seed and permutation reset, default() consistent with new()",
   technique="panic-edge inventory on rustc MIR with structural classification of precondition assertions; rational-function normal forms with merged powers for the bounds formulas; guarded-write, loop-exit and seeding rules over HIR",
   ref="DESIGN.md §4 C07"),
 "C09": dict(category="other",
   text=STRUCT_TXT % "densify writes only under !init[t], reads only under init[s], copies value and hash together, keeps init/nb_empty in step; the finisher is called once under no foreign condition; an empty-stream guard with Err return dominates every search loop; the u32 view depends on the u64 view and a literal only; panic-edge inventory of the finishing path",
   technique="custom static analysis over rustc HIR/MIR: control-dependence of writes/reads on the occupancy flags, pairing, dominating-guard (must-pass) rule, panic-edge inventory, backward slicing",
   ref="DESIGN.md §4 C09"),
 "C10": dict(category="other",
   text="Decides ONLY structural preconditions of the collision-probability claim (which is an expectation and is not decided): each (element, occurrence) race is seeded from all of element hash, occurrence number and instance seed through a mixing construction (SEED required roots + SEEDMIX); the race loop is left only when no position can accept the value (EXIT); the draw counter indexing the spacing table advances once per draw whatever the store answered (BETAS); positions hash their l selected elements in sequence order (MUSTPASS/PAIR); a second hash_set on the same instance starts from nothing the first one left (RESET-prefix).",
   technique="custom static analysis over rustc HIR: backward slicing with required roots, seed-mixing classification, loop-exit classification, dominance",
   ref="DESIGN.md §4 C10"),
 "C11": dict(category="other",
   text=STRUCT_TXT % "every exit of the race loop is a comparison with the tracker maximum or the slot bound (a break on a per-slot result is illegitimate); the per-pair seed depends on element, occurrence count and instance seed and never on the sequence index; the index flows only into the index store; sort-before-hash in create_signature; per-element permutation reset; every value hash_set returns is the store's create_signature(data)",
   technique="custom static analysis over rustc HIR: loop-exit classification, backward slicing, dominance (must-pass), paired-write matching",
   ref="DESIGN.md §4 C11"),
 "C12": dict(category="other",
   text="Decides the property for the library's own code: no call site (resolved through generics on MIR) draws from an ambient entropy/time/address/thread/environment/thread-pool-geometry source outside two tabled opt-in functions; no RandomState/ThreadRng/interior-mutable state in fields or statics outside a tabled list; hasher fields and constructor parameters are BuildHasherDefault by type; no seeding site has an ambient source among its roots; the batch entry points are per-element delegations to the per-item entry point; HashMap-consuming entry points do not depend on iteration order; reinit/reset re-establish the constructor state. Determinism of user-supplied hashers and dependency algorithms is assumed.",
   technique="who-may-call analysis over every resolved MIR call site and item type (rustc driver), backward slicing of seeds, type-level witness",
   ref="DESIGN.md §4 C12"),
 "C13": dict(category="other",
   text="Decides reset == new structurally for ten (constructor, reset) pairs: every field that is mutated by some method and live-in to some method is fully overwritten by the reset on every path (field effect summaries, transitive through sibling and nested methods), and the constructor's and the reset's initialisation specs agree per field. Value-level behaviour beyond InitSpec equality is not decided.",
   technique="field effect analysis (live-in / must-kill / mutated summaries) and initialisation-spec comparison over rustc HIR",
   ref="DESIGN.md §4 C13"),
 "C14": dict(category="other",
   text=STRUCT_TXT % "the six counting estimators match the template length-check (nothing but the length report leaves them before the count) / full-range loop / count of equal same-index pairs / count over length, aliases are pure delegations, every panic edge of the estimators is a precondition, machine-discharged or individually argued, and the MLE optimiser's start value is clamped into a bracket within [0,1]",
   technique="template matching and sibling comparison over rustc HIR, panic-edge inventory on MIR, clamp-chain rule against the external solver's contract",
   ref="DESIGN.md §4 C14"),
 "C01": dict(category="other",
   text="Decides ONLY structural preconditions anchored in the property's mechanisms; the statement itself is an expectation over hash randomness and is NOT decided (no static argument in reach can bound it). " + "Preconditions: a common item replays the same race (seed provenance, fresh digest), registers are guarded minima paired with their item, pruning only discards points that cannot win (exit classification, tracker accessor/step shapes), 3/3a/3aSha draw in the same order and bands, variant 2's slots come from a per-item reset permutation, the rate of the truncated exponential and the increment tables betas/g agree across sibling implementations (exact rational evaluation), the estimator is matches/m.",
   technique="custom static analysis over rustc HIR/MIR (slicing, CFG x DFA product, control dependence, sibling agreement with exact rational evaluation of table definitions, template matching)",
   ref="DESIGN.md §4 C01 / §8"),
 "C03": dict(category="other",
   text="Decides ONLY structural preconditions anchored in the property's mechanisms; the statement itself is an expectation over hash randomness and is NOT decided (no static argument in reach can bound it). " + "Preconditions: per-item generator seeded from the item hash, the j-th draw assigns Uniform[0,1)+j to the j-th element of a per-item permutation built by a Fisher-Yates step k ~ Uniform[j,m) (SuperMinHash2: next element of a verified-reset FYshuffle), histogram/a_upper bookkeeping follows every register move, registers are guarded minima, exactly-once item_rank increment and marker discipline, the estimators are matches/m.",
   technique="custom static analysis over rustc HIR (guard matching, shape rules on resolved normal forms, loop-exit classification, RESET analysis, template matching)",
   ref="DESIGN.md §4 C03 / §8"),
 "C08": dict(category="other",
   text="Decides ONLY structural preconditions anchored in the property's mechanisms; the statement itself is an expectation over hash randomness and is NOT decided (no static argument in reach can bound it). " + "Preconditions: item -> (value, bin) from a generator seeded by the item hash, a bin keeps the smallest value with its hash under an order-insensitive guard, densification copies (value, hash) pairs from populated bins into empty bins only with generators keyed by position/size/pass/constants, bookkeeping of init/nb_empty, empty-stream guard, the u32 view a rehash of all bytes of each stored value with a literal seed.",
   technique="custom static analysis over rustc HIR (control dependence on occupancy flags, pairing, slicing, dominating-guard rule)",
   ref="DESIGN.md §4 C08 / §8"),
 "C15": dict(category="other",
   text="Decides ONLY structural clauses of the tracker (the inductive invariant over all update sequences is not proved): accessor shapes (maximum = root node, strict comparison), the shape of one propagation step of update (leaf written only if strictly smaller; parent m + k/2 receives max(child, sibling k ^ 1); the walk ends only at the root, when the parent equals both children, or when it would not decrease), the 2m-1 node layout, reset == new, and the empty-slot value of every MaxValue impl being the maximum of its own type.",
   technique="shape rules over rustc HIR (definitions, control dependence, loop-exit classification of the update step) and the RESET field-effect analysis",
   ref="DESIGN.md §4 C15 / §8"),
 "C17": dict(category="other",
   text=STRUCT_TXT % "the permutation array is only swapped or set to identity (who-may-write, no reference escapes), reset == new for FYshuffle, exactly one cursor increment per draw that no guard clause can skip, read/swap/increment order of next, the index formula lastidx + trunc(U*(m-lastidx)) with U a Uniform[0,1) f64. Uniformity is not decided.",
   technique="who-may-write rule, field effect analysis and InitSpec comparison, counter and ordering rules over rustc HIR",
   ref="DESIGN.md §4 C17"),
 "C18": dict(category="other",
   text="Decides the property structurally: inventory of user-written unsafe (none after the repair; Vec::from_raw_parts must transfer ownership and keep layout), and every impl of the byte-identity trait is built only from native-endian bytes of self in order (injective fixed-width concatenation); in the Sha variant the digest of exactly key.get_sig() seeds the generator on every path.",
   technique="unsafe inventory with ownership-transfer rule and call-whitelist classification of trait impls over rustc HIR",
   ref="DESIGN.md §4 C18"),
 "C20": dict(category="other",
   text=STRUCT_TXT % "reload_json has no panic edge beyond unwraps discharged by a dominating is_err() return, every Result in it is propagated/tested/returned, the persisted form is a derived-serde JSON object (every field written, no custom (de)serialisation hook called by the derived code) read to EOF (the deserialiser is given the whole file: the opened reader unbounded, or a buffer filled to end of file and passed unsliced) into Self and returned unchanged, the dump truncates, both sides use the same file name. Float round-trip exactness is not decided.",
   technique="panic-edge inventory on rustc MIR with dominator-based discharge, error-flow rule and shape checks over HIR and item facts",
   ref="DESIGN.md §4 C20"),
})

NA = {
 "C16": "a distribution law; even the range clause [0,1) needs reasoning about transcendental constants that no static domain in reach provides",
}

def main():
    checks = []
    na = []
    for p in props:
        i = p["id"]
        if i in CLAIMED:
            c = CLAIMED[i]
            checks.append({
                "property_id": i,
                "quick_cmd": "bin/pmhcheck %s --tier quick" % i,
                "thorough_cmd": "bin/pmhcheck %s --tier thorough" % i,
                "evidence_file": "/verif/evidence/%s.json" % i,
                "replay_cmd_template": "cat {path}",
                "engine": "pmhcheck",
                "level_claimed": {"category": c["category"], "text": c["text"], "design_ref": c["ref"]},
                "level_note": c.get("note", TB),
                "technique": c["technique"],
            })
        else:
            na.append({"property_id": i, "reason": NA.get(i, "static rules for this property are not implemented yet in this commit (planned in DESIGN.md §4)")})
    m = {
        "version": 1,
        "setup_cmd": "bin/setup.sh",
        "hooks": {
            "guard": "probminhash_verif",
            "enable": "none needed: static analysis reads /repo's source through a rustc driver; the guard names an unused cfg and no hook commit exists",
            "baseline_off_cmd": "bin/baseline.sh",
            "source_commits": [],
            "add_only": True,
        },
        "engines": [{
            "name": "pmhcheck",
            "path": "bin/pmhcheck",
            "serves_properties": [c["property_id"] for c in checks],
            "kind_free_text": "static analysis: rustc_private driver (driver/) serialises the type-checked HIR and MIR of /repo with the real build's flags; Python rule library (pmh/) decides per-property rules on them; nothing in /repo is executed",
        }],
        "checks": checks,
        "notes": "Technique family: static analysis only. exit 0 = all rule instances hold, 1 = VIOLATION, 2 = ANALYSIS-ERROR (analysis could not be performed; never a pass). Repairs of nine genuine defects found by the rules are 'fix:' commits in /repo, listed as fixed in known_findings.json.",
        "not_applicable": na,
    }
    json.dump(m, open(os.path.join(V, "MANIFEST.json"), "w"), indent=1)

if __name__ == "__main__":
    main()
