#!/bin/bash
# runs every registered check (quick tier by default) and reports any that does not exit 0
cd "$(dirname "$0")/.."
tier=${1:-quick}
fail=0
for p in $(python3 -c "import json; print(' '.join(c['property_id'] for c in json.load(open('MANIFEST.json'))['checks']))"); do
  out=$(bin/pmhcheck $p --tier $tier 2>&1); rc=$?
  if [ $rc -ne 0 ]; then echo "!! $p exit $rc"; echo "$out" | tail -5 | cut -c1-300; fail=1; else echo "$out" | tail -1; fi
done
exit $fail
