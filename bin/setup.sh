#!/bin/sh
# builds the fact driver offline and warms the dependency artefacts of the analysis work directories
set -e
cd "$(dirname "$0")/.."
export CARGO_NET_OFFLINE=true
(cd driver && cargo +nightly build --release --offline)
python3 - <<'PY'
import sys
sys.path.insert(0, ".")
from pmh import engine
for cfg in ("default",):
    f = engine.load_facts(cfg)
    print("setup: config %s analysed, %d bodies" % (cfg, f.n_bodies))
PY
