#!/bin/bash
exec "$(dirname "$0")/runall.sh" thorough
