#!/usr/bin/env python3
"""mkseeded.py <prop> <name> <srcdir> "<what it needs to manifest>" : files a confirmed seeded change under /verif/seeded/
(patch.diff, demo.rs, notes.md, meta.json) and records which checks flag it (runs every check on a scratch copy)."""
import json, os, re, shutil, subprocess, sys
V = os.path.dirname(os.path.dirname(os.path.abspath(__file__)))
sys.path.insert(0, V)
from pmh import scratch
prop, name, src, needs = sys.argv[1:5]
res = json.load(open("/tmp/vseed/results/%s-%s.json" % (prop, name)))
assert res["confirmed"], res
sid = "%s-%s" % (prop, name)
d = os.path.join(V, "seeded", sid)
os.makedirs(d, exist_ok=True)
for f in ("patch.diff", "demo.rs", "notes.md"):
    if os.path.exists(os.path.join(src, f)):
        shutil.copy2(os.path.join(src, f), os.path.join(d, f))
props = [c["property_id"] for c in json.load(open(os.path.join(V, "MANIFEST.json")))["checks"]]
sc = scratch.make_copy()
ok, msg = scratch.apply_patch(sc, os.path.join(d, "patch.diff"))
assert ok, msg
det = {}
try:
    for p in props:
        env = dict(os.environ, PMH_EVIDENCE_DIR="/tmp/pmh-ev-seeded")
        r = subprocess.run([os.path.join(V, "bin", "pmhcheck"), p, "--src", sc, "--work", "scratch"], env=env, capture_output=True, text=True)
        rules = sorted(set(re.findall(r"rule ([A-Za-z0-9-]+) violated", r.stdout)))
        det[p] = {"exit": r.returncode, "rules": rules}
finally:
    scratch.remove(sc)
    shutil.rmtree("/tmp/pmh-ev-seeded", ignore_errors=True)
own = det.get(prop, {})
meta = {
    "id": sid, "property": prop, "name": name,
    "breaks": "see notes.md (written by the independent sub-agent that produced the change)",
    "needs_to_manifest": needs,
    "source": "independent sub-agent given only the property text and its own scratch worktree (/tmp/seed/%s)" % prop,
    "confirmed_by_me": {
        "how": "bin/seedverify.sh in a fresh scratch worktree of /repo HEAD: demo on pristine, apply patch, build, demo with patch, full baseline suite with patch",
        "patch_applies": res["patch_applies"], "builds": res["builds"],
        "demo_passes_on_pristine": res["demo_passes_on_pristine"], "demo_fails_with_patch": res["demo_fails_with_patch"],
        "suite_with_patch": res["suite_summary"].strip(), "stable_tests_missing_with_patch": res["stable_tests_missing_with_patch"],
    },
    "detected_by_own_property_check": own.get("exit") == 1,
    "own_property_rules": own.get("rules", []),
    "detected_by": {p: v["rules"] for p, v in det.items() if v["exit"] == 1},
    "analysis_errors": [p for p, v in det.items() if v["exit"] not in (0, 1)],
}
json.dump(meta, open(os.path.join(d, "meta.json"), "w"), indent=1)
print(sid, "own:", own, "| others:", {p: v["rules"] for p, v in det.items() if v["exit"] == 1 and p != prop}, "| errors:", meta["analysis_errors"])
