#!/bin/bash
# seedverify.sh <prop> <name> <dir containing patch.diff and demo.rs> : confirms a seeded change in a scratch worktree
# (compiles; demo passes without / fails with; the 34 stable tests still pass with it). Result JSON on stdout file.
set -u
prop=$1; name=$2; src=$3
wt=/tmp/vseed/$prop-$name
out=/tmp/vseed/results/$prop-$name.json
rm -rf "$wt"; git -C /repo worktree prune
git -C /repo worktree add --detach "$wt" HEAD -q || exit 2
cp -r /repo/target "$wt/target"
cd "$wt"
mkdir -p tests; cp "$src/demo.rs" tests/demo_seed.rs
export CARGO_NET_OFFLINE=true
cargo test --offline --test demo_seed > "$wt/demo_pristine.log" 2>&1; demo_pristine=$?
git apply "$src/patch.diff" > "$wt/apply.log" 2>&1; applied=$?
cargo build --offline > "$wt/build.log" 2>&1; build=$?
warnings=$(grep -c "^warning" "$wt/build.log")
cargo test --offline --test demo_seed > "$wt/demo_mutant.log" 2>&1; demo_mutant=$?
rm -f tests/demo_seed.rs; rmdir tests 2>/dev/null
cargo nextest run --workspace --no-fail-fast --tool-config-file pb:/w/lib/nextest.toml --profile pb --test-threads 6 --offline > "$wt/suite.log" 2>&1
summary=$(grep "Summary" "$wt/suite.log" | tail -1)
python3 - "$wt" "$out" "$prop" "$name" "$demo_pristine" "$applied" "$build" "$warnings" "$demo_mutant" "$summary" <<'PY'
import sys, json, xml.etree.ElementTree as ET
wt, out, prop, name, dp, ap, bd, wn, dm, summary = sys.argv[1:11]
b = json.load(open('/root/.vp/BASELINE.json'))
ok = set()
try:
    for tc in ET.parse(wt + '/target/nextest/pb/junit.xml').getroot().iter('testcase'):
        if tc.find('failure') is None and tc.find('error') is None:
            ok.add('probminhash::' + tc.get('name'))
except Exception as e:
    summary += ' (junit: %s)' % e
missing = sorted(set(b['stable_pass']) - ok)
json.dump({'property': prop, 'name': name, 'patch_applies': ap == '0', 'builds': bd == '0', 'build_warnings': int(wn),
           'demo_passes_on_pristine': dp == '0', 'demo_fails_with_patch': dm != '0', 'suite_summary': summary,
           'stable_tests_missing_with_patch': missing, 'confirmed': ap == '0' and bd == '0' and dp == '0' and dm != '0' and not missing},
          open(out, 'w'), indent=1)
print(open(out).read())
PY
cd /; git -C /repo worktree remove --force "$wt"; git -C /repo worktree prune
