#!/usr/bin/env python3
"""rewrites Appendix D of DESIGN.md from seeded/*/meta.json"""
import glob, json, os, re
V = os.path.dirname(os.path.dirname(os.path.abspath(__file__)))
rows = []
for f in sorted(glob.glob(os.path.join(V, "seeded", "*", "meta.json"))):
    m = json.load(open(f))
    others = {p: r for p, r in m["detected_by"].items() if p != m["property"]}
    rows.append("| %s | %s | %s | %s | %s |" % (
        m["id"], m["needs_to_manifest"].replace("|", "/"),
        ("**yes**: " + ", ".join(m["own_property_rules"])) if m["detected_by_own_property_check"] else "**no**",
        "; ".join("%s (%s)" % (p, ", ".join(r)) for p, r in sorted(others.items())) or "–",
        m.get("history", "")))
txt = """## Appendix D — seeded changes and the checks that catch them

Each row is a change produced by an independent sub-agent that saw only the property text and its own scratch worktree,
confirmed by me in a fresh worktree (`bin/seedverify.sh`: compiles; demonstration passes on the pristine tree and fails
with the change; the 34 stable baseline tests still pass with it) and filed under `/verif/seeded/<id>/`. "Own check" is
the check of the property the change was written against, run on a scratch copy with the patch applied.

| id | needs, to manifest | caught by own check (rules) | also caught by | history |
|----|--------------------|-----------------------------|----------------|---------|
""" + "\n".join(rows) + "\n"
p = os.path.join(V, "DESIGN.md")
s = open(p).read()
if "## Appendix D" in s:
    s = s[:s.index("## Appendix D")]
s = s.rstrip("\n") + "\n\n" + txt
open(p, "w").write(s)
print(len(rows), "rows")
