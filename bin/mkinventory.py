#!/usr/bin/env python3
"""mkinventory.py : freezes the ids of the functions of the tree the rules were written for (both configurations) into
pmh/inventory.json. Functions in the inventory are never inlined into their callers (pmh/inline.py); run this only when the
rule tables have been brought up to date with the tree."""
import json, os, sys
V = os.path.dirname(os.path.dirname(os.path.abspath(__file__)))
sys.path.insert(0, V)
from pmh import engine
ids = set()
for cfg in ("default", "nodefault"):
    try:
        facts = engine.load_facts(cfg)
    except Exception as e:
        print("config", cfg, "skipped:", e)
        continue
    ids |= set(facts.fns.keys())
json.dump({"fns": sorted(ids), "commit": os.popen("git -C %s rev-parse HEAD" % engine.REPO).read().strip()}, open(os.path.join(V, "pmh", "inventory.json"), "w"), indent=0)
print(len(ids), "function ids")
