#!/usr/bin/env python3
"""reseed.py : recomputes, for every filed seeded change, which checks flag it (all claimed properties), in parallel"""
import concurrent.futures as cf, glob, json, os, re, shutil, subprocess, sys
V = os.path.dirname(os.path.dirname(os.path.abspath(__file__)))
sys.path.insert(0, V)
from pmh import scratch
props = [c["property_id"] for c in json.load(open(os.path.join(V, "MANIFEST.json")))["checks"]]
seeds = sorted(glob.glob(os.path.join(V, "seeded", "*", "meta.json")))

def work(args):
    slot, paths = args
    out = []
    for mp in paths:
        d = os.path.dirname(mp)
        sc = scratch.make_copy()
        ok, msg = scratch.apply_patch(sc, os.path.join(d, "patch.diff"))
        det = {}
        try:
            if ok:
                for p in props:
                    env = dict(os.environ, PMH_EVIDENCE_DIR="/tmp/pmh-ev-reseed%d" % slot)
                    r = subprocess.run([os.path.join(V, "bin", "pmhcheck"), p, "--src", sc, "--work", "reseed%d" % slot], env=env, capture_output=True, text=True)
                    det[p] = {"exit": r.returncode, "rules": sorted(set(re.findall(r"rule ([A-Za-z0-9-]+) violated", r.stdout)))}
        finally:
            scratch.remove(sc)
            shutil.rmtree("/tmp/pmh-ev-reseed%d" % slot, ignore_errors=True)
        m = json.load(open(mp))
        own = det.get(m["property"], {})
        m["detected_by_own_property_check"] = own.get("exit") == 1
        m["own_property_rules"] = own.get("rules", [])
        m["detected_by"] = {p: v["rules"] for p, v in det.items() if v["exit"] == 1}
        m["analysis_errors"] = [p for p, v in det.items() if v["exit"] not in (0, 1)]
        json.dump(m, open(mp, "w"), indent=1)
        out.append((m["id"], m["detected_by_own_property_check"], m["own_property_rules"], m["analysis_errors"]))
    return out

N = 4
chunks = [(i, seeds[i::N]) for i in range(N)]
with cf.ThreadPoolExecutor(max_workers=N) as ex:
    for res in ex.map(work, chunks):
        for r in res:
            print(*r)
