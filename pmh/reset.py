"""RESET: reset == new.  Field effect summaries (live-in / must-kill / mutated) on HIR, and InitSpec comparison
between a constructor and a reset method."""
import re

from . import hirq, nf, slicer
from .rulelib import short, for_loops, tree_of

KILL_METHODS = {"fill", "clear"}
CELL_TYPES = ("std::option::Option<", "core::option::Option<", "std::sync::OnceLock<", "std::cell::OnceCell<", "core::cell::OnceCell<")


def _is_cell_take(n):
    """`x.take()` on an Option / OnceLock / OnceCell leaves the empty value (`None`, `OnceLock::new()`)"""
    if n.get("k") != "MethodCall" or n.get("name") != "take" or n.get("args"):
        return False
    ty = n.get("recv_ty", "")
    ty = ty[5:] if ty.startswith("&mut ") else ty
    return ty.startswith(CELL_TYPES)

PURE_READ_METHODS = {"len", "is_empty", "iter", "get", "contains", "first", "last", "capacity", "clone", "to_vec", "hash_one",
                     "build_hasher", "sample", "contains_key"}


class Summary:
    def __init__(self):
        self.live = set()      # fields read (or partially written) before being fully overwritten on some path
        self.kill = set()      # fields fully overwritten on every path
        self.mut = set()       # fields written in any way
        self.reads = set()     # fields read anywhere
        self.exits = []        # kill sets at explicit `return`s


class Analyzer:
    """summaries for the methods of one struct. struct_path e.g. 'superminhasher::SuperMinHash';
    nested: {field name: nested struct path} for fields whose type is another analysed struct;
    resets: {struct path: reset method name} for nested structs whose (new, reset) pair is verified."""

    def __init__(self, facts, struct_path, methods, nested=None, verified_resets=None, nested_an=None):
        self.facts = facts
        self.struct = struct_path
        self.methods = methods          # {name: fn}
        self.nested = nested or {}
        self.verified = verified_resets or {}
        self.nested_an = nested_an or {}    # struct path -> Analyzer
        self.cache = {}
        self._in = set()

    def state_fields_of_nested(self, spath):
        an = self.nested_an.get(spath)
        if an is None:
            return None
        m = set()
        for name in an.methods:
            if name in ("new", "default"):
                continue
            m |= an.summary(name).mut
        return m

    def summary(self, name):
        if name in self.cache:
            return self.cache[name]
        if name in self._in:
            return Summary()
        self._in.add(name)
        fn = self.methods[name]
        s = Summary()
        st = {"killed": set()}
        self._scan(fn["hir"], st, s, fn)
        s.kill = set(st["killed"])
        for e in s.exits:
            s.kill &= e
        self._in.discard(name)
        self.cache[name] = s
        return s

    # ------------------------------------------------------------------ events
    def _use(self, f, st, s):
        s.reads.add(f)
        if f not in st["killed"]:
            s.live.add(f)

    def _kill(self, f, st, s):
        s.mut.add(f)
        st["killed"].add(f)

    def _mutate(self, f, st, s):
        s.mut.add(f)
        if f not in st["killed"]:
            s.live.add(f)

    @staticmethod
    def _self_field(n):
        """(field, is_whole) if n is a place rooted at self.<field>; is_whole when n is exactly self.<field>"""
        kind, key, proj, idx = slicer.base_place(n)
        if kind != "self":
            return None, False
        m = nf.strip(n)
        whole = m["k"] == "Field" and nf.strip(m["base"])["k"] == "Path"
        return key, whole

    def _scan(self, n, st, s, fn):
        k = n["k"]
        if hirq.in_log_macro(n):
            # logging reads do not matter for behaviour
            return
        if k == "Block":
            for x in n["stmts"]:
                self._scan(x, st, s, fn)
            if "expr" in n:
                self._scan(n["expr"], st, s, fn)
            return
        if k == "Let":
            if "init" in n:
                self._scan(n["init"], st, s, fn)
            return
        if k == "If":
            self._scan(n["c"], st, s, fn)
            a = {"killed": set(st["killed"])}
            b = {"killed": set(st["killed"])}
            self._scan(n["t"], a, s, fn)
            if "e" in n:
                self._scan(n["e"], b, s, fn)
            ka, kb = a["killed"], b["killed"]
            if nf._diverges(n["t"]):
                st["killed"] = kb
            elif "e" in n and nf._diverges(n["e"]):
                st["killed"] = ka
            else:
                st["killed"] = ka & kb
            return
        if k == "Match":
            # for-loop desugaring handled as a loop
            if n.get("src") == "ForLoopDesugar" and n["e"]["k"] == "Call" and short(n["e"].get("callee", "")) == "into_iter":
                self._scan_for(n, st, s, fn)
                return
            self._scan(n["e"], st, s, fn)
            outs = []
            for arm in n["arms"]:
                a = {"killed": set(st["killed"])}
                if "guard" in arm:
                    self._scan(arm["guard"], a, s, fn)
                self._scan(arm["body"], a, s, fn)
                if not nf._diverges(arm["body"]):
                    outs.append(a["killed"])
            if outs:
                r = outs[0]
                for o in outs[1:]:
                    r = r & o
                st["killed"] = r
            return
        if k == "Ret":
            if "e" in n:
                self._scan(n["e"], st, s, fn)
            s.exits.append(set(st["killed"]))
            return
        if k == "Loop":
            a = {"killed": set(st["killed"])}
            self._scan(n["body"], a, s, fn)
            return
        if k == "Closure":
            a = {"killed": set(st["killed"])}
            self._scan(n["body"], a, s, fn)
            return
        if k == "Assign":
            self._scan(n["r"], st, s, fn)
            f, whole = self._self_field(n["l"])
            if f is not None:
                # index / sub-expressions of the place
                for x in self._place_subexprs(n["l"]):
                    self._scan(x, st, s, fn)
                if whole:
                    self._kill(f, st, s)
                else:
                    self._mutate(f, st, s)
            else:
                self._scan(n["l"], st, s, fn)
            return
        if k == "AssignOp":
            self._scan(n["r"], st, s, fn)
            f, whole = self._self_field(n["l"])
            if f is not None:
                for x in self._place_subexprs(n["l"]):
                    self._scan(x, st, s, fn)
                self._mutate(f, st, s)
                s.reads.add(f)
            else:
                self._scan(n["l"], st, s, fn)
            return
        if k == "MethodCall" and n.get("name") == "for_each":
            fe = for_each_info(n)
            im = iter_mut_kill(fe) if fe is not None else None
            if im is not None:
                s.mut.add(im[0])
                st["killed"].add(im[0])
                return
        if k == "MethodCall":
            recv = n["recv"]
            f, whole = self._self_field(recv)
            rk, rkey, _p, _i = slicer.base_place(recv)
            for a in n["args"]:
                self._scan_arg(a, st, s, fn)
            if rk == "selfall" and nf.nf(recv) == "self":
                # call of a sibling method: apply its summary
                name = n["name"]
                if name in self.methods and self.methods[name] is not fn:
                    cs = self.summary(name)
                    for x in cs.live:
                        self._use(x, st, s)
                    s.reads |= cs.reads
                    for x in cs.mut:
                        s.mut.add(x)
                    for x in cs.kill:
                        st["killed"].add(x)
                else:
                    s.live.add("*")
                return
            if f is not None:
                for x in self._place_subexprs(recv):
                    self._scan(x, st, s, fn)
                name = n["name"]
                mutable = n.get("recv_ty", "").startswith("&mut ")
                nested = self.nested.get(f)
                if nested and whole:
                    an = self.nested_an.get(nested)
                    if an is not None and name in an.methods:
                        cs = an.summary(name)
                        state = self.state_fields_of_nested(nested) or set()
                        if self.verified.get(nested) == name:
                            self._kill(f, st, s)
                            return
                        if cs.mut:
                            self._mutate(f, st, s)
                            s.reads.add(f)
                        elif cs.reads & state or "*" in cs.live:
                            self._use(f, st, s)
                        # config-only reads are not uses of state
                        return
                if mutable and whole and (name in KILL_METHODS or _is_cell_take(n)):
                    self._kill(f, st, s)
                elif mutable:
                    self._mutate(f, st, s)
                    s.reads.add(f)
                else:
                    self._use(f, st, s)
                return
            self._scan(recv, st, s, fn)
            return
        if k == "AddrOf":
            f, whole = self._self_field(n["e"])
            if f is not None:
                for x in self._place_subexprs(n["e"]):
                    self._scan(x, st, s, fn)
                if n["mut"]:
                    self._mutate(f, st, s)
                    s.reads.add(f)
                else:
                    self._use(f, st, s)
                return
            self._scan(n["e"], st, s, fn)
            return
        if k in ("Field", "Index"):
            f, whole = self._self_field(n)
            if f is not None:
                for x in self._place_subexprs(n):
                    self._scan(x, st, s, fn)
                self._use(f, st, s)
                return
        if k == "Path":
            if "local" in n["res"] and n["res"]["name"] == "self":
                # self used as a whole (returned, passed on)
                s.live.add("*")
            return
        for c in hirq.children(n):
            self._scan(c, st, s, fn)

    def _scan_arg(self, a, st, s, fn):
        self._scan(a, st, s, fn)

    @staticmethod
    def _place_subexprs(place):
        """index expressions inside a place (evaluated as reads)"""
        out = []
        cur = place
        while True:
            k = cur["k"]
            if k == "Index":
                out.append(cur["idx"])
                cur = cur["base"]
            elif k in ("AddrOf",) or (k == "Unary" and cur["op"] == "*") or k == "Cast":
                cur = cur["e"]
            elif k == "Field":
                cur = cur["base"]
            elif k == "MethodCall":
                out.extend(cur["args"])
                cur = cur["recv"]
            else:
                break
        return out

    def _scan_for(self, n, st, s, fn):
        """desugared for loop; recognises the full-range kill idiom `for i in 0..N { self.f[i] = e(i) }`"""
        it = n["e"]["args"][0]
        self._scan(it, st, s, fn)
        info = None
        for f in for_loops(fn):
            if f["match"] is n:
                info = f
        a = {"killed": set(st["killed"])}
        if info is None:
            self._scan(n["arms"][0]["body"], a, s, fn)
            return
        body = info["body"]
        var = hirq.show_pat(info["pat"])
        # idiom: for x in self.f.iter_mut() { *x = c }  /  for (i, x) in self.f.iter_mut().enumerate() { *x = i }
        im = iter_mut_kill(info)
        if im is not None:
            f_, _spec = im
            self._scan(info["body"]["stmts"][0]["r"] if False else nf.strip(it), a, s, fn) if False else None
            s.mut.add(f_)
            st["killed"].add(f_)
            return
        full = self.full_range(nf.nf(it, True, res=_R(fn)), fn)
        cands = []
        if body["k"] == "Block":
            seen_use = set()
            for stmt in body["stmts"] + ([body["expr"]] if "expr" in body else []):
                if stmt["k"] == "Assign":
                    f, whole = self._self_field(stmt["l"])
                    l = nf.strip(stmt["l"])
                    if f is not None and l["k"] == "Index" and nf.nf(l["idx"]) == var and nf.nf(l["base"]) == "self.%s" % f:
                        # value must not read the field itself
                        reads_self = any(self._self_field(x)[0] == f for x in hirq.walk(stmt["r"]) if x["k"] in ("Field",))
                        if full and not reads_self and f not in seen_use:
                            cands.append(f)
                            # scan the value only
                            self._scan(stmt["r"], a, s, fn)
                            s.mut.add(f)
                            continue
                before = set(s.live)
                self._scan(stmt, a, s, fn)
                seen_use |= (s.live - before) | {x for x in s.reads}
        else:
            self._scan(body, a, s, fn)
        for f in cands:
            st["killed"].add(f)

    def full_range(self, iter_nf, fn):
        """the iterator is 0..N with N a size alias of the struct (decided by the caller-provided predicate)"""
        m = re.match(r"^std::ops::Range\{start:0, end:(.*)\}$", iter_nf)
        if not m:
            return False
        return self.is_size(m.group(1), fn)

    def is_size(self, expr_nf, fn):
        return True


def for_each_info(call):
    """`X.iter_mut()[.enumerate()].for_each(|p| body)` seen as the loop `for p in X.iter_mut()[.enumerate()] { body }`"""
    if call.get("k") != "MethodCall" or call.get("name") != "for_each" or len(call.get("args", [])) != 1 or call["args"][0].get("k") != "Closure":
        return None
    cl = call["args"][0]
    if len(cl.get("params", [])) != 1:
        return None
    body = cl["body"]
    if body["k"] != "Block":
        body = {"k": "Block", "stmts": [], "expr": body, "sp": body.get("sp")}
    return {"iter": call["recv"], "pat": cl["params"][0], "body": body}


def iter_mut_kill(info):
    """(field, ('iota',)|('fill', value nf)) if the for loop is `for x in self.f.iter_mut() { *x = c }` or
    `for (i, x) in self.f.iter_mut().enumerate() { *x = i }` with nothing else in its body"""
    it = nf.strip(info["iter"])
    enum = False
    if it["k"] == "MethodCall" and it["name"] == "enumerate" and not it["args"]:
        enum = True
        it = nf.strip(it["recv"])
    if it["k"] != "MethodCall" or it["name"] != "iter_mut" or it["args"]:
        return None
    kind, key, proj, idx = slicer.base_place(it["recv"])
    if kind != "self" or proj or idx:
        return None
    pat = info["pat"]
    if enum:
        if pat["k"] != "Tuple" or len(pat["subs"]) != 2:
            return None
        ivar, xvar = hirq.show_pat(pat["subs"][0]), hirq.show_pat(pat["subs"][1])
    else:
        ivar, xvar = None, hirq.show_pat(pat)
    body = info["body"]
    stmts = [x for x in (body["stmts"] + ([body["expr"]] if "expr" in body else [])) if not hirq.in_log_macro(x)] if body["k"] == "Block" else [body]
    if len(stmts) != 1 or stmts[0]["k"] != "Assign":
        return None
    l = stmts[0]["l"]
    if not (l["k"] == "Unary" and l["op"] == "*" and nf.nf(l["e"]) == xvar):
        return None
    v = nf.nf(stmts[0]["r"], True)
    if "self.%s" % key in v or re.search(r"\b%s\b" % re.escape(xvar), v):
        return None
    if ivar is not None and v == ivar:
        return (key, ("iota",))
    if ivar is not None and re.search(r"\b%s\b" % re.escape(ivar), v):
        return None
    return (key, ("fill", stmts[0]["r"]))


# ------------------------------------------------------------------------------------- InitSpec

class Spec:
    def __init__(self, kind, val="", size="", overrides=None):
        self.kind = kind          # fill | iota | scalar | fresh | empty | unknown
        self.val = val
        self.size = size
        self.overrides = overrides or []

    def key(self):
        return (self.kind, self.val, self.size, tuple(sorted(self.overrides)))

    def __repr__(self):
        s = {"fill": "Fill(%s; %s)", "iota": "Iota(%s%s)", "scalar": "Scalar(%s%s)", "fresh": "Fresh(%s; %s)", "empty": "Empty%s%s",
             "unknown": "Unknown(%s%s)"}[self.kind] % (self.val, self.size)
        for (i, v) in self.overrides:
            s += " with [%s] = %s" % (i, v)
        return s


def _norm(s, aliases):
    """apply size aliases (longest first) to a normal-form string"""
    for a in sorted(aliases, key=len, reverse=True):
        s = re.sub(r"(?<![A-Za-z0-9_.])%s(?![A-Za-z0-9_(])" % re.escape(a), "N", s)
    return s


def _const_closure(cl, R=None):
    """closure |_| c  -> nf(c) if the body does not use the parameter"""
    params = [hirq.show_pat(p) for p in cl["params"]]
    body = nf.nf(cl["body"], casts=True, res=R)
    for p in params:
        if p != "_" and re.search(r"\b%s\b" % re.escape(p), body):
            return None
    return body.strip("{}")


def _R(fn):
    from .rulelib import resolver_of
    return resolver_of(fn)


def _is_builder_local(fn, name):
    """a local built by with_capacity + pushes must not be inlined by the resolver"""
    from .rulelib import def_exprs
    ds = def_exprs(fn, name)
    return len(ds) == 1 and nf.strip(ds[0])["k"] == "Call" and short(nf.strip(ds[0]).get("callee", "")) == "with_capacity"


def spec_of_expr(e, fn, aliases, depth=0):
    """InitSpec of an initialiser expression, resolving single-definition locals"""
    e = nf.strip(e)
    k = e["k"]
    R = _R(fn)
    if k == "Path" and "local" in e["res"] and depth < 4:
        name = e["res"]["name"]
        return spec_of_local(name, fn, aliases, depth + 1)
    if k == "MethodCall":
        name = e["name"]
        if name == "collect":
            r = nf.strip(e["recv"])
            if r["k"] == "MethodCall" and r["name"] == "map" and len(r["args"]) == 1 and r["args"][0]["k"] == "Closure":
                c = _const_closure(r["args"][0], R)
                src = nf.strip(r["recv"])
                while src["k"] == "MethodCall" and src["name"] in ("into_iter", "iter"):
                    src = nf.strip(src["recv"])
                rng = nf.nf(src, casts=True, res=R)
                m = re.match(r"^std::ops::Range\{start:0, end:(.*)\}$", rng)
                if c is not None and m:
                    return Spec("fill", _norm(c, aliases), _norm(m.group(1), aliases))
            rng = nf.nf(r, casts=True, res=R)
            m = re.match(r"^std::ops::Range\{start:0, end:(.*)\}$", rng)
            if m:
                return Spec("iota", "", _norm(m.group(1), aliases))
        if name in ("unwrap",):
            return spec_of_expr(e["recv"], fn, aliases, depth)
    if k == "Call":
        callee = e.get("callee", "")
        sc = short(callee)
        if sc == "from_iter" and len(e["args"]) == 1:
            # Vec::from_iter(0..n) / FromIterator::from_iter(0..n) is (0..n).collect()
            a_ = nf.strip(e["args"][0])
            while a_["k"] == "MethodCall" and a_["name"] in ("into_iter", "iter") and not a_["args"]:
                a_ = nf.strip(a_["recv"])
            m_ = re.match(r"^std::ops::Range\{start:0, end:(.*)\}$", nf.nf(a_, casts=True, res=R))
            if m_:
                return Spec("iota", "", _norm(m_.group(1), aliases))
        if sc == "from_elem" and len(e["args"]) == 2:
            return Spec("fill", _norm(nf.nf(e["args"][0], casts=True, res=R), aliases), _norm(nf.nf(e["args"][1], casts=True, res=R), aliases))
        if (sc == "new" and not e["args"]) or (sc == "with_capacity" and len(e["args"]) == 1 and "Vec" in callee):
            return Spec("empty", "", "")
        if sc in ("new", "default"):
            owner = callee.rsplit("::", 1)[0]
            owner = re.sub(r"::<.*$", "", owner)
            return Spec("fresh", owner, ", ".join(_norm(nf.nf(a, casts=True, res=R), aliases) for a in e["args"]))
    # scalar
    return Spec("scalar", _norm(nf.nf(e, casts=True, res=R), aliases), "")


def spec_of_local(name, fn, aliases, depth):
    """a local built by `with_capacity` + push loop, possibly followed by point overrides"""
    from .rulelib import def_exprs, user_nodes
    defs = def_exprs(fn, name)
    t = tree_of(fn)
    if len(defs) == 1:
        d = nf.strip(defs[0])
        if d["k"] == "Call" and short(d.get("callee", "")) == "with_capacity":
            # find pushes
            pushes = [n for n in user_nodes(fn) if n["k"] == "MethodCall" and n["name"] == "push" and nf.nf(n["recv"]) == name]
            if len(pushes) == 1:
                p = pushes[0]
                loops = t.enclosing_loops(p)
                fl = [f for f in for_loops(fn) if loops and f["loop"] is loops[0]]
                if len(loops) == 1 and fl and not nf.all_conditions(t, p, stop=loops[0]):
                    rng = nf.nf(fl[0]["iter"], casts=True)
                    m = re.match(r"^std::ops::Range\{start:0, end:(.*)\}$", rng)
                    var = hirq.show_pat(fl[0]["pat"])
                    val = nf.nf(p["args"][0], casts=True, res=_R(fn))
                    rng = nf.nf(fl[0]["iter"], casts=True, res=_R(fn))
                    m = re.match(r"^std::ops::Range\{start:0, end:(.*)\}$", rng)
                    if m and not re.search(r"\b%s\b" % re.escape(var), val):
                        sp = Spec("fill", _norm(val, aliases), _norm(m.group(1), aliases))
                        sp.overrides = _overrides(name, fn, aliases)
                        return sp
            return Spec("unknown", "with_capacity without a single full push loop", "")
        sp = spec_of_expr(d, fn, aliases, depth)
        sp.overrides = sp.overrides + _overrides(name, fn, aliases)
        return sp
    if not defs:
        # a parameter of the function
        return Spec("scalar", _norm(name, aliases), "")
    return Spec("unknown", "%d definitions of %s" % (len(defs), name), "")


def _resolve_scalar(val, fn):
    """a scalar named by a single-definition local is replaced by its definition (e.g. `large`)"""
    from .rulelib import def_exprs
    if re.match(r"^[a-z_][a-z0-9_]*$", val):
        ds = def_exprs(fn, val)
        if len(ds) == 1:
            return nf.nf(ds[0], casts=True)
    return val


def _overrides(name, fn, aliases):
    from .rulelib import user_nodes
    out = []
    for n in user_nodes(fn):
        if n["k"] == "Assign":
            l = nf.strip(n["l"])
            if l["k"] == "Index" and nf.nf(l["base"]) == name:
                out.append((_norm(nf.nf(l["idx"], casts=True, res=_R(fn)), aliases), _norm(nf.nf(n["r"], casts=True, res=_R(fn)), aliases)))
    return out


def ctor_specs(fn, struct_short, aliases):
    """{field: Spec} from the struct literal a constructor returns"""
    out = {}
    for n in hirq.walk(fn["hir"]):
        if n["k"] == "Struct" and hirq.respath(n["res"]).split("::")[-1].split("<")[0] == struct_short:
            for f in n["fields"]:
                out[f["name"]] = spec_of_expr(f["e"], fn, aliases)
                if out[f["name"]].kind == "scalar":
                    out[f["name"]].val = _norm(_resolve_scalar(out[f["name"]].val, fn), aliases)
    return out


def reset_specs(fn, aliases, nested_types):
    """{field: Spec} composed from the effects of a reset method, in order"""
    from .rulelib import user_nodes
    t = tree_of(fn)
    out = {}
    body = fn["hir"]
    fls = for_loops(fn)

    def value(e):
        return _norm(nf.nf(e, casts=True, res=_R(fn)), aliases)

    def visit(stmt):
        if hirq.in_log_macro(stmt):
            return
        k = stmt["k"]
        if k == "Assign":
            kind, key, proj, idx = slicer.base_place(stmt["l"])
            if kind != "self":
                return
            l = nf.strip(stmt["l"])
            if l["k"] == "Field":
                sp = spec_of_expr(stmt["r"], fn, aliases)
                if sp.kind == "scalar":
                    sp.val = _norm(_resolve_scalar(sp.val, fn), aliases)
                out[key] = sp
            elif l["k"] == "Index" and nf.nf(l["base"]) == "self.%s" % key:
                if key in out:
                    out[key].overrides.append((value(l["idx"]), value(stmt["r"])))
                else:
                    out[key] = Spec("unknown", "point write before any whole initialisation", "")
        elif k == "MethodCall" and stmt.get("name") == "for_each" and for_each_info(stmt) is not None and iter_mut_kill(for_each_info(stmt)) is not None:
            im = iter_mut_kill(for_each_info(stmt))
            out[im[0]] = Spec("iota", "", "N") if im[1][0] == "iota" else Spec("fill", value(im[1][1]), "N")
        elif k == "MethodCall":
            kind, key, proj, idx = slicer.base_place(stmt["recv"])
            if kind != "self":
                return
            if stmt["name"] == "fill" and len(stmt["args"]) == 1:
                out[key] = Spec("fill", value(stmt["args"][0]), "N")
            elif stmt["name"] == "clear" or _is_cell_take(stmt):
                out[key] = Spec("empty", "", "")
            elif stmt["name"] == "extend" and len(stmt["args"]) == 1 and key in out and out[key].kind == "empty":
                # v.clear(); v.extend(0..n)  /  v.extend(repeat(c).take(n))  rebuilds the vector from nothing
                a = nf.nf(stmt["args"][0], casts=True, res=_R(fn))
                m_ = re.match(r"^std::ops::Range\{start:0, end:(.*)\}$", a)
                m2 = re.match(r"^std::iter::repeat\((.*)\)\.take\((.*)\)$", a)
                if m_:
                    out[key] = Spec("iota", "", _norm(m_.group(1), aliases))
                elif m2:
                    out[key] = Spec("fill", _norm(m2.group(1), aliases), _norm(m2.group(2), aliases))
                else:
                    out[key] = Spec("unknown", "extend(%s) after clear()" % a[:40], "")
            elif stmt["name"] == "reset" and key in nested_types:
                out[key] = Spec("fresh", nested_types[key], "N")
        elif k == "Match" and stmt.get("src") == "ForLoopDesugar":
            fl = [f for f in fls if f["match"] is stmt]
            if not fl:
                return
            f = fl[0]
            im = iter_mut_kill(f)
            if im is not None:
                out[im[0]] = Spec("iota", "", "N") if im[1][0] == "iota" else Spec("fill", value(im[1][1]), "N")
                return
            rng = nf.nf(f["iter"], casts=True, res=_R(fn))
            m = re.match(r"^std::ops::Range\{start:0, end:(.*)\}$", rng)
            var = hirq.show_pat(f["pat"])
            b = f["body"]
            if not m or b["k"] != "Block":
                return
            size = _norm(m.group(1), aliases)
            for st2 in b["stmts"] + ([b["expr"]] if "expr" in b else []):
                if st2["k"] == "Assign":
                    kind, key, proj, idx = slicer.base_place(st2["l"])
                    l = nf.strip(st2["l"])
                    if kind == "self" and l["k"] == "Index" and nf.nf(l["idx"]) == var:
                        v = nf.nf(st2["r"], casts=True, res=_R(fn))
                        if v == var:
                            out[key] = Spec("iota", "", size)
                        elif not re.search(r"\b%s\b" % re.escape(var), v):
                            out[key] = Spec("fill", value(st2["r"]), size)
                        else:
                            out[key] = Spec("unknown", "element value depends on the index: %s" % v, "")

    for stmt in body["stmts"] + ([body["expr"]] if "expr" in body else []):
        visit(stmt)
    return out
