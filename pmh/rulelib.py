"""Generic rule implementations shared by the per-property rule files."""
import fnmatch
import re

from . import hirq, nf, slicer
from .engine import AnalysisError

SEED_FNS = ("seed_from_u64", "from_seed", "with_seed", "murmur3_32", "from_rng", "from_os_rng", "try_from_rng",
            "from_entropy", "seed_from_u32")

# per-function caches live inside the function's own fact dict (a cache keyed by id() would be reused by another
# fact file once the first one is garbage collected — the thorough tier analyses many trees in one process)


def tree_of(fn):
    t = fn.get("_tree")
    if t is None:
        t = hirq.Tree(fn["hir"])
        fn["_tree"] = t
    return t


def slicer_of(fn, control=False):
    key = "_slicer_c" if control else "_slicer"
    s = fn.get(key)
    if s is None:
        s = slicer.Slicer(fn, control=control)
        fn[key] = s
    return s


def resolver_of(fn):
    r = fn.get("_resolver")
    if r is None:
        r = nf.Resolver(fn)
        fn["_resolver"] = r
    return r


def mutable_locals(fn):
    """{name: [definition nodes]} for locals that are assigned more than once (let mut + assignments)"""
    out = {}
    for x in user_nodes(fn):
        if x["k"] == "Let" and x["pat"]["k"] == "Bind" and "Mut" in x["pat"].get("mode", ""):
            out.setdefault(x["pat"]["name"], [])
    return out


def short(callee):
    return (callee or "").split("::")[-1]


def callee_name(n):
    if n["k"] == "MethodCall":
        return n.get("resolved") or n.get("callee") or n["name"]
    if n["k"] == "Call":
        return n.get("resolved") or n.get("callee") or hirq.show(n["f"])
    return ""


def is_call_named(n, *names):
    if n["k"] == "MethodCall":
        return n["name"] in names
    if n["k"] == "Call":
        return short(n.get("callee") or hirq.show(n["f"])) in names
    return False


def user_nodes(fn):
    """nodes not inside logging macros"""
    t = tree_of(fn)
    return [n for n in t.nodes if not hirq.in_log_macro(n)]


# ---------------------------------------------------------------------------------- SEED

def seed_sites(fn):
    out = []
    for n in user_nodes(fn):
        if n["k"] in ("Call", "MethodCall") and is_call_named(n, *SEED_FNS):
            out.append(n)
    return out


def root_matches(rs, pats):
    return any(fnmatch.fnmatchcase(rs, p) for p in pats)


def check_roots(ctx, rule, fid, what, where, roots, allowed, required=(), forbidden_note=""):
    """roots: set of root atoms; allowed/required: lists of fnmatch patterns over show_root strings.
    literals are always allowed (fixed constants)."""
    shown = sorted(slicer.show_root(r) for r in roots)
    bad = [r for r in shown if not r.startswith("literal ") and not root_matches(r, allowed)]
    missing = [p for p in required if not any(fnmatch.fnmatchcase(r, p) for r in shown)]
    ok = True
    for b in bad:
        ctx.violation(rule, fid, "%s depends on %s" % (what, b), where,
                      "%s must depend only on {%s}%s; its backward slice also reaches %s" % (what, ", ".join(allowed), forbidden_note, b))
        ok = False
    for m in missing:
        ctx.violation(rule, fid, "%s lacks %s" % (what, m), where,
                      "%s must depend on %s; its backward slice reaches only {%s}" % (what, m, ", ".join(shown)))
        ok = False
    if ok:
        ctx.ok(rule, fid, "%s <- {%s}" % (what, ", ".join(shown)), where)
    return ok


def seed_wrapper(facts, callee):
    """an in-crate function whose only job is to build and return a seeded generator: straight-line body (no loop, no
    branch), exactly one seeding call, and that call (or the immutable local holding it) is the value returned.
    Returns (wrapper fn, inner seeding call) or None."""
    w = facts.fns.get(callee or "")
    if w is None or "hir" not in w:
        return None
    if "_wrapper" in w:
        return w["_wrapper"]
    res = None
    sites = seed_sites(w)
    body = w["hir"]
    if len(sites) == 1 and body["k"] == "Block" and "expr" in body and \
            not any(x["k"] in ("Loop", "If", "Match", "Closure", "Ret", "Assign", "AssignOp") for x in hirq.walk(body)):
        tail = nf.strip(body["expr"])
        if tail["k"] == "Path" and "local" in tail["res"]:
            d = resolver_of(w).lookup(tail["res"]["local"])
            tail = nf.strip(d) if d is not None else tail
        if tail is sites[0]:
            res = (w, sites[0])
    w["_wrapper"] = res
    return res


def _wrapper_roots(facts, fn, call, wrapper, ai):
    """roots of the wrapper's inner seed argument, expressed in the caller: the wrapper's parameters are replaced by the
    roots of the caller's arguments; fields of self stay (the receiver must be self)"""
    (w, inner) = wrapper
    wsl = slicer_of(w, control=True)
    sl = slicer_of(fn, control=True)
    if call["k"] == "MethodCall":
        actual = [call["recv"]] + list(call["args"])
    else:
        actual = list(call["args"])
    out = set()
    for r in wsl.roots(inner["args"][ai]):
        if r[0] == "param":
            m = re.match(r"#(\d+):", r[1])
            i = int(m.group(1)) if m else None
            if i is None or i >= len(actual):
                out.add(("src", "unresolved wrapper parameter " + r[1]))
            else:
                out |= set(sl.roots(actual[i]))
        elif r[0] in ("self", "len") and not (call["k"] == "MethodCall" and nf.nf(call["recv"]) in ("self", "&self", "&mut self")):
            out.add(("src", "field of a receiver other than self in " + short(w["id"] if "id" in w else "wrapper")))
        else:
            out.add(r)
    return slicer.normalise(out)


def seed_sites_resolved(facts, fn):
    """[(node, short seeding callee, roots(ai))]: the direct seeding calls of fn and its calls to seeding wrappers"""
    sl = slicer_of(fn, control=True)
    out = []
    for n in user_nodes(fn):
        if n["k"] not in ("Call", "MethodCall"):
            continue
        if is_call_named(n, *SEED_FNS):
            cs = short(n.get("callee") or (hirq.show(n["f"]) if n["k"] == "Call" else n["name"]))
            out.append((n, cs, (lambda ai, n=n: sl.roots(n["args"][ai])), len(n["args"])))
        else:
            wr = seed_wrapper(facts, n.get("callee"))
            if wr:
                inner = wr[1]
                cs = short(inner.get("callee") or (hirq.show(inner["f"]) if inner["k"] == "Call" else inner["name"]))
                out.append((n, cs, (lambda ai, n=n, wr=wr: _wrapper_roots(facts, fn, n, wr, ai)), len(inner["args"])))
    return out


def check_seeds(ctx, facts, rule, table):
    """table: {fn id: [ {callee: short name, arg: index, allowed: [...], required: [...]} ... ]}
    Every seeding site of a tabled function must match a row (in order of appearance per callee)."""
    n_sites = 0
    for fid, rows in table.items():
        fn = facts.fn(fid)
        sites = seed_sites_resolved(facts, fn)
        used = [0] * len(rows)
        for (s, cs, rootsf, nargs) in sites:
            row = None
            for i, r in enumerate(rows):
                if r["callee"] == cs and (used[i] == 0 or r.get("multi")):
                    row = r
                    used[i] += 1
                    break
            if row is None:
                ctx.violation(rule, fid, "untabled seeding call %s" % cs, hirq.loc(s),
                              "a generator/hasher is seeded here by %s but the rule table has no row for it; its seed roots are {%s}"
                              % (cs, ", ".join(sorted(slicer.show_root(r) for a in range(nargs) for r in rootsf(a)))))
                continue
            for ai in row.get("args", [0]):
                if ai >= nargs:
                    continue
                n_sites += 1
                allowed = row["allowed"][ai] if isinstance(row["allowed"], dict) else row["allowed"]
                required = row.get("required", [])
                required = required.get(ai, []) if isinstance(required, dict) else required
                check_roots(ctx, rule, fid, "seed of %s (arg %d)" % (cs, ai), hirq.loc(s), rootsf(ai),
                            allowed, required)
        for i, r in enumerate(rows):
            if used[i] == 0 and not r.get("optional"):
                ctx.violation(rule, fid, "missing seeding call %s" % r["callee"], hirq.loc(fn),
                              "expected a per-item seeding call %s in this function (the rule table lists it); none found" % r["callee"])
    return n_sites


# ---------------------------------------------------------------------------------- structure

def before(fn, a, b):
    """a comes before b in the (pre-order) text of the function — line numbers do not order nodes brought in from a helper"""
    pos = fn.get("_pos")
    if pos is None:
        pos = {id(x): i for i, x in enumerate(tree_of(fn).nodes)}
        fn["_pos"] = pos
    return pos.get(id(a), -1) < pos.get(id(b), -1)


def stmt_path(tree, n):
    """[(block, statement-level child)] from the root block down to n"""
    chain = [n] + list(tree.ancestors(n))
    chain.reverse()
    out = []
    for i, a in enumerate(chain[:-1]):
        if a["k"] == "Block":
            out.append((a, chain[i + 1]))
    return out


CONDITIONAL_KINDS = ("If", "Match", "Loop", "Closure")


def unconditional_within(tree, top, n):
    """n is executed whenever `top` (an ancestor statement) is executed: no If branch, Match arm, loop body,
    closure or short-circuit right operand in between. Conditions of If / scrutinees are unconditional."""
    if n is top:
        return True
    child = n
    for a in tree.ancestors(n):
        k = a["k"]
        if k == "If":
            if child is not a["c"]:
                return False
        elif k == "Match":
            if child is not a["e"]:
                return False
        elif k in ("Loop", "Closure"):
            return False
        elif k == "Binary" and a["op"] in ("&&", "||") and child is a["r"]:
            return False
        if a is top:
            return True
        child = a
    return n is top


def hir_dominates(tree, a, b):
    """every execution reaching b has executed a before, within the innermost block that contains both
    (per iteration if that block is a loop body)"""
    pa = stmt_path(tree, a)
    pb = stmt_path(tree, b)
    common = None
    for (x, y) in zip(pa, pb):
        if x[0] is y[0]:
            common = (x, y)
        else:
            break
    if common is None:
        return False
    (blk, sa), (_, sb) = common
    items = list(blk["stmts"]) + ([blk["expr"]] if "expr" in blk else [])
    ia = next((i for i, s in enumerate(items) if s is sa), None)
    ib = next((i for i, s in enumerate(items) if s is sb), None)
    if ia is None or ib is None or ia >= ib:
        return False
    return unconditional_within(tree, sa, a)


def for_loops(fn):
    """desugared `for` loops: [{loop, pat, iter, body}]"""
    out = []
    t = tree_of(fn)
    for n in t.nodes:
        if n["k"] == "Match" and n.get("src") == "ForLoopDesugar" and n["e"]["k"] == "Call" and short(n["e"].get("callee", "")) == "into_iter":
            loop = n["arms"][0]["body"]
            if loop["k"] != "Loop":
                continue
            inner = None
            for s in loop["body"]["stmts"] + ([loop["body"]["expr"]] if "expr" in loop["body"] else []):
                if s["k"] == "Match" and s.get("src") == "ForLoopDesugar":
                    inner = s
            if inner is None:
                continue
            some = [a for a in inner["arms"] if a["pat"]["k"] == "Struct" and a["pat"].get("fields")]
            if not some:
                continue
            out.append({"match": n, "loop": loop, "pat": some[0]["pat"]["fields"][0]["pat"], "iter": n["e"]["args"][0],
                        "body": some[0]["body"], "inner": inner})
    return out


def loop_exits(fn, loop):
    """ways out of `loop` (a Loop node): [(kind, node, facts-at-exit)] where kind in guard|break|return|try.
    For `while c {}` the desugaring is loop { if c {body} else {break} }: that break is the guard exit."""
    t = tree_of(fn)
    out = []
    for n in t.nodes:
        if not t.contains(loop, n) or n is loop:
            continue
        if hirq.in_log_macro(n):
            continue
        if n["k"] == "Break" and n.get("target") == loop["id"]:
            kind = "break"
            # the while-guard: break in the else branch of the first If of the loop body
            body = loop["body"]
            first = body.get("expr") if not body["stmts"] else None
            if loop["src"] == "While" and first is not None and first["k"] == "If" and "e" in first and t.contains(first["e"], n) and hirq.from_expansion(n):
                kind = "guard"
            if loop["src"] == "ForLoop" and hirq.from_expansion(n):
                kind = "iterator-exhausted"
            if loop["src"] == "Loop" and kind == "break":
                # `loop { if c { break; } body }` is `while !c { body }`: the leading break is the guard
                stmts0 = [s_ for s_ in body["stmts"] if not hirq.in_log_macro(s_)]
                first0 = stmts0[0] if stmts0 else body.get("expr")
                if first0 is not None and first0["k"] == "If" and "e" not in first0:
                    tb = first0["t"]
                    only = (tb["stmts"] + ([tb["expr"]] if "expr" in tb else [])) if tb["k"] == "Block" else [tb]
                    only = [s_ for s_ in only if not hirq.in_log_macro(s_)]
                    if len(only) == 1 and only[0] is n:
                        kind = "guard"
                # `let x = match it.next() { Some(v) => v, None => break };` at the top of the body: the iterator is exhausted
                for a in t.ancestors(n):
                    if a is loop:
                        break
                    if a["k"] == "Match" and a.get("src") == "Normal":
                        scr = nf.strip(a["e"])
                        arm = [ar for ar in a["arms"] if t.contains(ar["body"], n)]
                        others = [ar for ar in a["arms"] if ar is not (arm[0] if arm else None)]
                        if scr["k"] == "MethodCall" and scr["name"] == "next" and not scr["args"] and arm and len(a["arms"]) == 2 and \
                                hirq.show_pat(others[0]["pat"]).startswith("Some(") and nf.strip(arm[0]["body"]) is n:
                            par = t.parent.get(id(a))
                            if par is not None and par["k"] == "Let" and any(s_ is par for s_ in stmts0[:1]):
                                kind = "iterator-exhausted"
                        break
            out.append((kind, n))
        elif n["k"] == "Ret":
            out.append(("return", n))
        elif n["k"] == "Match" and str(n.get("src", "")).startswith("TryDesugar"):
            out.append(("try", n))
    return out


def writes_to_self(fn, field=None):
    """assignment nodes whose place is rooted at self.<field> (any field if None): [(node, field, idx_exprs)]"""
    out = []
    for n in user_nodes(fn):
        if n["k"] in ("Assign", "AssignOp"):
            kind, key, proj, idx = slicer.base_place(n["l"])
            if kind == "self" and (field is None or key == field):
                out.append((n, key, idx))
    return out


def self_method_calls(fn, field, names=None):
    """method calls whose receiver is rooted at self.<field>"""
    out = []
    for n in user_nodes(fn):
        if n["k"] == "MethodCall":
            kind, key, proj, idx = slicer.base_place(n["recv"])
            if kind == "self" and key == field and (names is None or n["name"] in names):
                out.append(n)
    return out


def mutating_self_calls(fn):
    """method calls that take self or a self field by &mut"""
    out = []
    for n in user_nodes(fn):
        if n["k"] == "MethodCall" and n.get("recv_ty", "").startswith("&mut "):
            kind, key, proj, idx = slicer.base_place(n["recv"])
            if kind in ("self", "selfall"):
                out.append((n, key))
    return out


def def_exprs(fn, local_name):
    """all expressions assigned to the local called `local_name` (let-initialisers and assignments)"""
    out = []
    for n in user_nodes(fn):
        if n["k"] == "Let" and n["pat"]["k"] == "Bind" and n["pat"]["name"] == local_name and "init" in n:
            out.append(n["init"])
        elif n["k"] == "Assign":
            l = nf.strip(n["l"])
            if l["k"] == "Path" and l["res"].get("name") == local_name and "local" in l["res"]:
                out.append(n["r"])
        elif n["k"] == "AssignOp":
            l = nf.strip(n["l"])
            if l["k"] == "Path" and l["res"].get("name") == local_name and "local" in l["res"]:
                out.append(n)
    return out


def is_max_bound(fn, expr_nf_str, tracker_fields, _depth=0):
    """expr is `self.<tracker>.get_max_value()` or a local all of whose definitions are such calls"""
    for tf in tracker_fields:
        if expr_nf_str == "self.%s.get_max_value()" % tf:
            return True
    if re.match(r"^[A-Za-z_][A-Za-z0-9_]*$", expr_nf_str) and _depth < 4:
        ds = def_exprs(fn, expr_nf_str)

        def ok_def(n):
            if n["k"] == "AssignOp":
                return False
            s_ = nf.nf(n)
            if any(s_ == "self.%s.get_max_value()" % tf for tf in tracker_fields):
                return True
            # handed over from another local that is itself such a bound (a parameter of an inlined helper)
            return s_ != expr_nf_str and re.match(r"^[A-Za-z_][A-Za-z0-9_]*$", s_) is not None and is_max_bound(fn, s_, tracker_fields, _depth + 1)
        if ds and all(ok_def(n) for n in ds):
            return True
    return False


def enclosing_fn_conditions(fn, node, stop=None):
    t = tree_of(fn)
    return nf.all_conditions(t, node, stop)


def while_body(loop):
    """for `while c { body }` (desugared to loop { if c { body } else { break } }) the body block, so that
    conditions collected with stop=while_body(loop) exclude the loop's own guard; other loops: the loop"""
    if loop["k"] == "Loop" and loop["src"] == "While":
        b = loop["body"]
        first = b.get("expr") if not b["stmts"] else None
        if first is not None and first["k"] == "If":
            return first["t"]
    return loop


def range_of(it):
    """(lo, hi, inclusive(0/1), reversed) of an iterated range `lo..hi` / `lo..=hi`, optionally `.rev()`; None for another shape"""
    it = nf.strip_casts(it)
    rev = False
    while it["k"] == "MethodCall" and it["name"] in ("rev", "into_iter") and not it["args"]:
        rev = rev != (it["name"] == "rev")
        it = nf.strip_casts(it["recv"])
    if it["k"] == "Struct" and it.get("res", {}).get("path") == "std::ops::Range":
        f = {x["name"]: x["e"] for x in it["fields"]}
        return f["start"], f["end"], 0, rev
    if it["k"] == "Call" and short(it.get("callee", "")) == "new" and "RangeInclusive" in it.get("callee", "") and len(it["args"]) == 2:
        return it["args"][0], it["args"][1], 1, rev
    return None


def counted_loop(fn, loop):
    """A loop whose iteration number t = 0, 1, .. determines a counter: {var: local name, lid, value(node) -> rational function of
    '#t' = the counter's value where `node` reads it, count: number of iterations when no other exit is taken, step: the stepping
    statement or None}. Recognised: `for v in lo..hi | lo..=hi [.rev()]`, and `let mut c = INIT; while c > 0 | c != 0 | c >= 1
    { ..; c -= 1; .. }` / `while c < N | c != N { ..; c += 1; .. }` where the step is the only write to c, a top-level statement
    of the body with no `continue` before it. None otherwise."""
    from . import ratfn
    t = tree_of(fn)
    R = resolver_of(fn)
    T = (ratfn.p_atom("#t"), ratfn.ONE)

    def add(a, b, sign=1):
        return (ratfn.p_add(ratfn.p_mul(a[0], b[1]), ratfn.p_mul(b[0], a[1]), sign), ratfn.p_mul(a[1], b[1]))
    one = (ratfn.ONE, ratfn.ONE)
    for fl in for_loops(fn):
        if fl["loop"] is loop:
            rg = range_of(fl["iter"])
            if rg is None or fl["pat"].get("k") != "Bind":
                return None
            lo, hi, incl, rev = rg
            rl, rh = ratfn.rat(lo, R), ratfn.rat(hi, R)
            cnt = add(add(rh, rl, -1), (ratfn.p_const(incl), ratfn.ONE))
            if not rev:
                v = add(rl, T)
            else:
                v = add(add(rh, (ratfn.p_const(1 - incl), ratfn.ONE), -1), T, -1)
            return {"var": fl["pat"]["name"], "lid": fl["pat"]["id"], "value": (lambda node, v=v: v), "count": cnt, "step": None, "body": fl["body"]}
    if loop["k"] != "Loop" or loop.get("src") != "While":
        return None
    b = loop["body"]
    first = b.get("expr") if not b["stmts"] else None
    if first is None or first["k"] != "If":
        return None
    c = nf.strip(first["c"])
    if c["k"] != "Binary" or c["op"] not in ("<", ">", "!=", ">=", "<="):
        return None
    l_, r_ = nf.strip_casts(c["l"]), nf.strip_casts(c["r"])
    op = c["op"]
    if not (l_["k"] == "Path" and "local" in l_["res"]):
        l_, r_ = r_, l_
        op = {"<": ">", ">": "<", ">=": "<=", "<=": ">=", "!=": "!="}[op]
    if not (l_["k"] == "Path" and "local" in l_["res"]):
        return None
    lid, name = l_["res"]["local"], l_["res"]["name"]
    lets = [x for x in user_nodes(fn) if x["k"] == "Let" and x["pat"].get("k") == "Bind" and x["pat"]["id"] == lid and "init" in x]
    if len(lets) != 1 or t.contains(loop, lets[0]):
        return None
    ws = [x for x in user_nodes(fn) if x["k"] in ("Assign", "AssignOp") and nf._place(x["l"]) == ("local", lid)]
    if len(ws) != 1 or not t.contains(first["t"], ws[0]):
        return None
    w = ws[0]
    step = None
    if w["k"] == "AssignOp" and w["op"] in ("+=", "-=") and nf.nf(w["r"], True) == "1":
        step = 1 if w["op"] == "+=" else -1
    elif w["k"] == "Assign":
        rr = ratfn.rat(w["r"], None)
        for sg in (1, -1):
            if ratfn.equal(rr, add((ratfn.p_atom(name), ratfn.ONE), one, sg)):
                step = sg
    if step is None:
        return None
    body = first["t"]
    top = body["stmts"] + ([body["expr"]] if "expr" in body else [])
    idx = [i for i, s_ in enumerate(top) if s_ is w]
    if not idx or any(t._has_continue(s_) for s_ in top[:idx[0]]):
        return None
    # the bound must be the same at every test: nothing it reads (locals, fields of self, receivers of the calls in it) is
    # written, borrowed mutably or mutated through a `&mut self` method inside the loop (`while j < v.len() { .. v.swap_remove(j) .. }`
    # is not a counted loop)
    from . import normalise as _nm
    assigned = _nm._assigned_places(first["t"])
    reads_b = set()
    work_ = [r_]
    seen_ = set()
    while work_:
        e_ = work_.pop()
        for x in hirq.walk(e_):
            if x["k"] == "Path" and "local" in x.get("res", {}) and x["res"]["name"] != "self":
                reads_b.add(x["res"]["name"])
                if x["res"]["local"] not in seen_:
                    seen_.add(x["res"]["local"])
                    d_ = R.defs.get(x["res"]["local"]) if hasattr(R, "defs") else None
                    if d_ is not None:
                        work_.append(d_)
            if x["k"] == "Field" and x["base"]["k"] == "Path" and x["base"].get("res", {}).get("name") == "self":
                reads_b.add("self." + x["name"])
    if (reads_b & assigned) or ("self.*" in assigned and any(x.startswith("self.") for x in reads_b)):
        return None
    init = ratfn.rat(lets[0]["init"], R)
    bound = ratfn.rat(r_, R)
    zero = (ratfn.ZERO, ratfn.ONE)
    if step == -1 and ((op in (">", "!=") and ratfn.equal(bound, zero)) or (op == ">=" and ratfn.equal(bound, one))):
        cnt = init
    elif step == 1 and op in ("<", "!="):
        cnt = add(bound, init, -1)
    elif step == 1 and op == "<=":
        cnt = add(add(bound, init, -1), one)
    else:
        return None
    v0 = add(init, T, step)                         # before the step statement
    v1 = add(v0, one, step)                         # after it

    def value(node, w=w, v0=v0, v1=v1):
        return v1 if (before(fn, w, node) and not t.contains(w, node)) else v0
    return {"var": name, "lid": lid, "value": value, "count": cnt, "step": w, "body": body, "guard": first["c"]}


# ---------------------------------------------------------------------------------- ALIAS

ALIAS_RULE = ("the register fields whose writes the guard rules judge are mutated, outside constructors and resets, only by plain "
              "assignments `self.f[..] = v` / `op=` or by the tabled in-place methods (swap of two positions, sort of the per-position "
              "range, a paired copy_within shift of the store): no `&mut self.f..` reference, `iter_mut()`, `get_mut()`, `as_mut_slice()` … is created — a write through such a "
              "reference would be invisible to GUARD / PAIR / TIE / HISTO / MARKER / RESET-prefix")

# prefix -> (register fields, {(field, method)} allowed in-place methods, functions whose mutations the RESET analysis judges)
ALIAS_TABLE = {
    "probminhasher::probminhash2::ProbMinHash2::<D, H>::": (["signature"], set(), ("new", "reset")),
    "probminhasher::probminhash3::ProbMinHash3::<D, H>::": (["signature"], set(), ("new",)),
    "probminhasher::probminhash3::ProbMinHash3a::<D, H>::": (["signature"], set(), ("new",)),
    "probminhasher::probminhash3sha::ProbMinHash3aSha::<D>::": (["signature"], set(), ("new",)),
    "superminhasher::SuperMinHash::<F, T, H>::": (["hsketch", "p", "q", "b", "a_upper", "item_rank"], {("p", "swap")}, ("new", "reinit")),
    "superminhasher2::SuperMinHash2::<I, T, H>::": (["hsketch", "values", "l", "b", "a_upper", "item_rank"], set(), ("new", "reinit")),
    "setsketcher::SetSketcher::<I, T, H>::": (["k_vec", "lower_k", "nbmin"], set(), ("new", "reinit", "default")),
    "densminhash::OptDensMinHash::<F, D, H>::": (["hsketch", "values", "init", "nb_empty"], set(), ("new", "reinit")),
    "densminhash::RevOptDensMinHash::<F, D, H>::": (["hsketch", "values", "init", "nb_empty"], set(), ("new", "reinit")),
    "probminhasher::probordminhash2::OrdMinHashStore::<V>::": (["values", "indices"], {("indices", "sort_unstable"), ("indices", "sort"), ("values", "copy_within"), ("indices", "copy_within")}, ("new", "reset")),
    "maxvaluetrack::MaxValueTracker::<V>::": (["values"], set(), ("new", "reset")),
    "fyshuffle::FYshuffle::": (["v", "lastidx"], {("v", "swap")}, ("new", "reset")),
}


def alias_rule(ctx, facts, prefixes):
    """ALIAS for the structs named by their method-id prefixes; returns the number of mutation sites examined"""
    from . import inline
    ctx.rule("ALIAS", ALIAS_RULE)
    n = 0
    for prefix in prefixes:
        if prefix not in ALIAS_TABLE:
            raise AnalysisError("no ALIAS table row for %s" % prefix)
        fields, allowed, exempt = ALIAS_TABLE[prefix]
        found_any = False
        for fid, fn in facts.fns.items():
            if "hir" not in fn or not fid.startswith(prefix) or "{closure" in fid:
                continue
            found_any = True
            if fid[len(prefix):] in exempt:
                continue
            bad = []
            for x in user_nodes(fn):
                if x["k"] == "MethodCall" and x.get("recv_ty", "").startswith("&mut "):
                    kind, key, proj, idx = slicer.base_place(x["recv"])
                    if kind == "self" and key in fields:
                        n += 1
                        if (key, x["name"]) not in allowed:
                            bad.append((x, key, "the method `%s`" % x["name"]))
                elif x["k"] == "AddrOf" and x.get("mut"):
                    kind, key, proj, idx = slicer.base_place(x["e"])
                    if kind == "self" and key in fields:
                        n += 1
                        bad.append((x, key, "a `&mut` reference"))
                elif x["k"] in ("Assign", "AssignOp"):
                    kind, key, proj, idx = slicer.base_place(x["l"])
                    if kind == "self" and key in fields:
                        n += 1
                elif x["k"] in ("Call", "MethodCall") and fn["params"] and "&mut" in fn["params"][0].get("ty", ""):
                    # the whole receiver handed to something else than one of its own methods: `helper(self)`, `x.f(self)`
                    for a in x["args"]:
                        b = a
                        while b["k"] == "AddrOf" or (b["k"] == "Unary" and b.get("op") == "*"):
                            b = b["e"]
                        if b["k"] == "Path" and "local" in b.get("res", {}) and b["res"].get("name") == "self":
                            n += 1
                            bad.append((x, "*", "the whole `self` passed as an argument"))
                elif x["k"] == "Let" and "init" in x and _is_whole_self(x["init"]) and fn["params"] and "&mut" in fn["params"][0].get("ty", ""):
                    n += 1
                    bad.append((x, "*", "a second name for `self`"))
                elif x["k"] == "Let" and _has_ref_mut(x["pat"]):
                    ini = x.get("init")
                    if ini is not None:
                        kind, key, proj, idx = slicer.base_place(ini)
                        if kind == "self" and key in fields:
                            n += 1
                            bad.append((x, key, "a `ref mut` binding"))
            for (x, key, how) in bad:
                ctx.violation("ALIAS", fid, "%s mutated through %s" % (key, how.replace("`", "")), hirq.loc(x),
                              "%s can be mutated through %s (`%s`): the guard rules only judge plain assignments to the register fields, "
                              "so a write made this way would escape them" % ("self.%s" % key if key != "*" else "any field", how, hirq.show(x)[:70]))
        if not found_any:
            raise AnalysisError("ALIAS: no function with prefix %s in the analysed crate" % prefix)
        ctx.ok("ALIAS", prefix.rstrip(":"), "fields %s mutated only by assignments%s outside %s" % (fields, (" and " + ", ".join("%s.%s" % a for a in sorted(allowed))) if allowed else "", list(exempt)), "")
    return n


def _is_whole_self(e):
    while e["k"] == "AddrOf" or (e["k"] == "Unary" and e.get("op") == "*"):
        e = e["e"]
    return e["k"] == "Path" and "local" in e.get("res", {}) and e["res"].get("name") == "self"


def _has_ref_mut(p):
    k = p.get("k")
    if k == "Bind":
        return "Ref" in p.get("mode", "") and "Mut" in p.get("mode", "") and p.get("mode", "").startswith("BindingMode(Ref")
    for key in ("subs",):
        if key in p:
            return any(_has_ref_mut(q) for q in p[key])
    if "sub" in p:
        return _has_ref_mut(p["sub"])
    if k == "Struct":
        return any(_has_ref_mut(f["pat"]) for f in p.get("fields", []))
    return False


_P2 = "probminhasher::probminhash2::ProbMinHash2::<D, H>::"
_P3 = "probminhasher::probminhash3::ProbMinHash3::<D, H>::"
_P3A = "probminhasher::probminhash3::ProbMinHash3a::<D, H>::"
_SHA = "probminhasher::probminhash3sha::ProbMinHash3aSha::<D>::"
_SMH = "superminhasher::SuperMinHash::<F, T, H>::"
_SMH2 = "superminhasher2::SuperMinHash2::<I, T, H>::"
_SS = "setsketcher::SetSketcher::<I, T, H>::"
_OD = "densminhash::OptDensMinHash::<F, D, H>::"
_RD = "densminhash::RevOptDensMinHash::<F, D, H>::"
_OMS = "probminhasher::probordminhash2::OrdMinHashStore::<V>::"
_MVT = "maxvaluetrack::MaxValueTracker::<V>::"
_FY = "fyshuffle::FYshuffle::"
# the structs whose guard rules each property relies on
ALIAS_FOR = {
    "C01": [_P2, _P3, _P3A, _SHA, _MVT, _FY, _OMS], "C02": [_P2, _P3, _P3A, _SHA, _MVT, _FY], "C03": [_SMH, _SMH2, _FY],
    "C04": [_SMH, _SMH2, _SS, _OD, _RD, _FY], "C05": [_SS, _SMH], "C06": [_SS], "C07": [_SS, _FY], "C08": [_OD, _RD], "C09": [_OD, _RD],
    "C10": [_OMS, _MVT, _FY], "C11": [_OMS, _MVT, _FY], "C13": list(ALIAS_TABLE), "C15": [_MVT], "C17": [_FY],
}


def run_property(prop, mod, ctx, facts):
    """the rules of one property on one fact set: the property's own rule file, then ALIAS for the structs it relies on"""
    mod.run(ctx, facts)
    inl = getattr(facts, "inliner", None)
    if inl is not None:
        ctx.extra.setdefault("preprocessing", {})[facts.config or "default"] = {
            "new_private_helpers_inlined": {k: v for k, v in sorted(inl.inlined.items())},
            "helper_calls_left_as_calls": {k: v for k, v in sorted(inl.kept.items())},
            "absorbed_helpers": sorted(getattr(inl, "absorbed", ())),
            "source_normalisations_applied": getattr(inl, "normalised", 0),
            "shadowing_bindings_renamed": getattr(inl, "renamed", 0),
            "inventory_size": len(inl.inv or ()),
        }
    prefixes = [p_ for p_ in ALIAS_FOR.get(prop, []) if any(f.startswith(p_) for f in facts.fns)]
    if prefixes:
        alias_rule(ctx, facts, prefixes)
