"""Queries over the HIR trees emitted by the pmh-facts driver (plain dicts)."""

LOG_MACROS = {"macro:trace", "macro:debug", "macro:info", "macro:warn", "macro:error", "macro:log",
              "macro:println", "macro:print", "macro:eprintln"}


def is_node(x):
    return isinstance(x, dict) and "k" in x


def children(n):
    """direct child nodes (expressions, blocks, statements) in source order"""
    out = []
    for key, v in n.items():
        if key in ("sp", "ty", "ty_adj", "res", "pat", "params"):
            continue
        if is_node(v):
            out.append(v)
        elif isinstance(v, list):
            for x in v:
                if is_node(x):
                    out.append(x)
                elif isinstance(x, dict):
                    # match arms / struct fields
                    for kk in ("guard", "body", "e"):
                        if kk in x and is_node(x[kk]):
                            out.append(x[kk])
    return out


def walk(n):
    """pre-order traversal of all nodes"""
    stack = [n]
    while stack:
        x = stack.pop()
        yield x
        stack.extend(reversed(children(x)))


class Tree:
    """parent pointers and helpers for one function's HIR"""

    def __init__(self, root):
        self.root = root
        self.parent = {}
        self.nodes = []
        for n in walk(root):
            self.nodes.append(n)
            for c in children(n):
                self.parent[id(c)] = n

    def ancestors(self, n):
        p = self.parent.get(id(n))
        while p is not None:
            yield p
            p = self.parent.get(id(p))

    def find(self, pred):
        return [n for n in self.nodes if pred(n)]

    def contains(self, outer, inner):
        if outer is inner:
            return True
        for a in self.ancestors(inner):
            if a is outer:
                return True
        return False

    def conditions(self, n, stop=None):
        """[(cond_node, polarity)] of the If ancestors of n (innermost first). A node inside the
        condition itself is not guarded by it. Match arms: (match_node, arm_index) as cond with
        polarity 'arm'.
        An earlier statement `if c { ..; continue }` (no else) of an enclosing block is the same as nesting the rest of that
        block under `!c`: it contributes (c, False). A `continue` (or labelled break out of the block) buried deeper in an
        earlier statement contributes (stmt, 'opaque'): the node is reached under a condition that is not modelled."""
        out = []
        child = n
        for a in self.ancestors(n):
            if stop is not None and a is stop:
                break
            if a["k"] == "If":
                if self.contains(a["t"], child) and a["t"] is not None and (a["t"] is child or self.contains(a["t"], child)):
                    out.append((a["c"], True))
                elif "e" in a and self.contains(a["e"], child):
                    out.append((a["c"], False))
            elif a["k"] == "Match":
                for i, arm in enumerate(a["arms"]):
                    if self.contains(arm["body"], child):
                        out.append((a, ("arm", i)))
            elif a["k"] == "Block":
                for st in a["stmts"]:
                    if st is child:
                        break
                    c_ = self._continue_guard(st)
                    if c_ is not None:
                        out.append((c_, False))
                    elif self._has_continue(st):
                        out.append((st, "opaque"))
            child = a
        return out

    @staticmethod
    def _continue_guard(st):
        """the condition c of a statement `if c { ...; continue }` without else (the then-branch ends in `continue`)"""
        if st["k"] != "If" or "e" in st:
            return None
        t = st["t"]
        while t["k"] == "Block":
            last = t.get("expr")
            if last is None and t["stmts"]:
                last = t["stmts"][-1]
            if last is None:
                return None
            t = last
        return st["c"] if t["k"] == "Continue" else None

    def _has_continue(self, st):
        """a `continue` inside st that leaves st (its target loop is not inside st)"""
        if in_log_macro(st):
            return False
        inner_loops = {x["id"] for x in walk(st) if x["k"] == "Loop" and "id" in x}
        for x in walk(st):
            if x["k"] == "Continue" and x.get("target") not in inner_loops and not in_log_macro(x):
                return True
        return False

    def enclosing_loops(self, n):
        return [a for a in self.ancestors(n) if a["k"] == "Loop"]


def _mname(s):
    if s.startswith("macro:"):
        return "macro:" + s[6:].split("::")[-1]
    return s


def expn(n):
    """(innermost, outermost) expansion descriptors, macro paths reduced to their last segment"""
    sp = n.get("sp")
    return (_mname(sp[4]), _mname(sp[5])) if sp and sp[3] else ("", "")


def in_log_macro(n):
    i, o = expn(n)
    return o in LOG_MACROS or i in LOG_MACROS


def from_expansion(n):
    sp = n.get("sp")
    return bool(sp and sp[3])


def loc(n):
    sp = n.get("sp")
    return "%s:%d" % (sp[0], sp[1]) if sp else "?"


# ----------------------------------------------------------------------------- printing

def show_pat(p):
    k = p["k"]
    if k == "Bind":
        s = p["name"]
        if "sub" in p:
            s += " @ " + show_pat(p["sub"])
        return s
    if k == "Wild":
        return "_"
    if k == "Tuple":
        return "(" + ", ".join(show_pat(x) for x in p["subs"]) + ")"
    if k == "TupleStruct":
        return respath(p["res"]).split("::")[-1] + "(" + ", ".join(show_pat(x) for x in p["subs"]) + ")"
    if k == "Ref":
        return "&" + show_pat(p["sub"])
    if k == "Struct":
        return respath(p["res"]).split("::")[-1] + "{" + ", ".join(show_pat(f["pat"]) for f in p["fields"]) + "}"
    if k == "Lit":
        return "<lit>"
    return "<pat:%s>" % k


def respath(res):
    if "local" in res:
        return res["name"]
    if "path" in res:
        return res["path"]
    return str(res.get("other"))


def show(n, depth=0):
    """compact Rust-like rendering (for messages, not for comparison)"""
    if n is None:
        return ""
    k = n["k"]
    if k == "Lit":
        return n["v"]
    if k == "Path":
        return respath(n["res"])
    if k == "Field":
        return show(n["base"]) + "." + n["name"]
    if k == "Index":
        return show(n["base"]) + "[" + show(n["idx"]) + "]"
    if k == "Unary":
        return n["op"] + show(n["e"])
    if k == "Binary":
        return "(" + show(n["l"]) + " " + n["op"] + " " + show(n["r"]) + ")"
    if k == "Assign":
        return show(n["l"]) + " = " + show(n["r"])
    if k == "AssignOp":
        return show(n["l"]) + " " + n["op"] + " " + show(n["r"])
    if k == "Cast":
        return show(n["e"]) + " as " + n["ty"]
    if k == "AddrOf":
        return ("&mut " if n["mut"] else "&") + show(n["e"])
    if k == "Call":
        return show(n["f"]) + "(" + ", ".join(show(a) for a in n["args"]) + ")"
    if k == "MethodCall":
        return show(n["recv"]) + "." + n["name"] + "(" + ", ".join(show(a) for a in n["args"]) + ")"
    if k == "Tup":
        return "(" + ", ".join(show(a) for a in n["es"]) + ")"
    if k == "Array":
        return "[" + ", ".join(show(a) for a in n["es"]) + "]"
    if k == "Repeat":
        return "[" + show(n["e"]) + "; _]"
    if k == "If":
        s = "if " + show(n["c"]) + " " + show(n["t"], depth)
        if "e" in n:
            s += " else " + show(n["e"], depth)
        return s
    if k == "LetExpr":
        return "let " + show_pat(n["pat"]) + " = " + show(n["init"])
    if k == "Loop":
        return "loop[%s] " % n["src"] + show(n["body"], depth)
    if k == "Match":
        ind = "  " * (depth + 1)
        s = "match[%s] " % n["src"] + show(n["e"]) + " {\n"
        for a in n["arms"]:
            s += ind + show_pat(a["pat"]) + (" if " + show(a["guard"]) if "guard" in a else "") + " => " + show(a["body"], depth + 1) + ",\n"
        return s + "  " * depth + "}"
    if k == "Closure":
        return "|" + ", ".join(show_pat(p) for p in n["params"]) + "| " + show(n["body"], depth)
    if k == "Break":
        return "break" + (" " + show(n["e"]) if "e" in n else "")
    if k == "Continue":
        return "continue"
    if k == "Ret":
        return "return" + (" " + show(n["e"]) if "e" in n else "")
    if k == "Struct":
        return respath(n["res"]).split("::")[-1] + " { " + ", ".join(f["name"] + ": " + show(f["e"]) for f in n["fields"]) + " }"
    if k == "Let":
        return "let " + show_pat(n["pat"]) + (" = " + show(n["init"], depth) if "init" in n else "")
    if k == "Item":
        return "<item>"
    if k == "Block":
        ind = "  " * (depth + 1)
        s = ("unsafe " if n.get("unsafe") else "") + "{\n"
        for st in n["stmts"]:
            if in_log_macro(st):
                s += ind + "<log>;\n"
                continue
            s += ind + show(st, depth + 1) + ";\n"
        if "expr" in n:
            s += ind + show(n["expr"], depth + 1) + "\n"
        return s + "  " * depth + "}"
    return "<%s %s>" % (k, n.get("dbg", "")[:40])
