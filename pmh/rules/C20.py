"""C20 — SetSketch parameters dump/reload: error discipline of reload, self-delimiting persisted form, truncating open."""
import re

from .. import hirq, nf, panic
from ..rulelib import tree_of, user_nodes, def_exprs, short, before

P = "setsketcher::SetSketchParams"
DUMP = P + "::dump_json"
RELOAD = P + "::reload_json"

RULES = {
    "PANIC": "reload_json has no panic edge except unwraps machine-discharged by a dominating is_err()/is_none() early return on the same "
             "value: a missing or torn file must come back as Err, never as an abort",
    "ERRFLOW": "every Result produced in reload_json is propagated with `?` (possibly through map_err), tested with is_err() and returned "
               "as Err, or returned: no error is dropped",
    "JSON": "SetSketchParams is a braced struct with derived Serialize/Deserialize and no serde container/field attributes; it is "
            "written with serde_json::to_writer and read with serde_json::from_reader (which demands end of input) into Self, and the "
            "parsed value is returned unchanged. A JSON object text is self-delimiting, so no strict prefix of the file parses",
    "OPEN": "dump opens with write(true).create(true).truncate(true) (literal trues), reload with read(true); both join the same literal "
            "file name to the directory",
}


def open_chain(fn):
    """[(method, arg nf)] of the OpenOptions builder chain ending in open()"""
    for n in user_nodes(fn):
        if n["k"] == "MethodCall" and n["name"] == "open" and "OpenOptions" in n.get("recv_ty", ""):
            chain = []
            cur = n["recv"]
            while cur["k"] == "MethodCall":
                chain.append((cur["name"], [nf.nf(a) for a in cur["args"]]))
                cur = cur["recv"]
            root = nf.nf(cur)
            return list(reversed(chain)), root, nf.nf(n["args"][0]), n
    return None, None, None, None


WHOLE_FILLERS = ("read_to_string", "read_to_end")
PARTIAL_FILLERS = ("read", "read_exact", "read_buf", "read_vectored", "read_line", "read_until")
WHOLE_CALLS = ("std::fs::read_to_string", "std::fs::read", "std::io::read_to_string")


def whole_input(ctx, rfn, reader):
    """the deserialiser is given the WHOLE file: from_reader on the opened file (possibly buffered, never `.take(n)`), or
    from_str / from_slice on a buffer filled to end of file (read_to_string / read_to_end / fs::read*) and passed unsliced.
    A single `read(&mut buf)` or a fixed-size buffer hands over a prefix: a file longer than the buffer is reported torn
    (or, cut at a record boundary, parses to different parameters)."""
    from ..rulelib import resolver_of
    R = resolver_of(rfn)
    t = tree_of(rfn)
    arg = nf.strip(reader["args"][0])
    shown = nf.nf(arg, False, res=R)
    if reader["callee"] == "serde_json::from_reader":
        if re.search(r"\btake\(|\bbytes\(|\bchain\(", shown):
            ctx.violation("JSON", RELOAD, "reader input not the whole file", hirq.loc(reader), "from_reader is given `%s`: a bounded or transformed view of the file" % shown[:100])
        else:
            ctx.ok("JSON", RELOAD, "from_reader consumes the reader `%s` to end of input" % shown[:60], hirq.loc(reader))
        return
    # from_str / from_slice
    cur = arg
    while cur["k"] == "MethodCall" and cur["name"] in ("as_str", "as_slice", "as_bytes", "as_ref", "trim", "trim_end") and not cur["args"]:
        cur = nf.strip(cur["recv"])
    if cur["k"] == "Path" and "local" in cur["res"]:
        d = R.lookup(cur["res"]["local"], cur)
        if d is not None:
            cur2 = nf.strip(d)
            while cur2["k"] in ("MethodCall", "Match") and (cur2.get("name") in ("unwrap", "expect", "map_err", "as_str", "as_slice") or cur2.get("src") == "TryDesugar"):
                cur2 = nf.strip(cur2["recv"] if cur2["k"] == "MethodCall" else (cur2["e"]["args"][0] if cur2["e"]["k"] == "Call" and cur2["e"].get("args") else cur2["e"]))
            if cur2["k"] == "Call" and cur2.get("callee", "") in WHOLE_CALLS:
                ctx.ok("JSON", RELOAD, "parsed text is the result of %s" % cur2["callee"], hirq.loc(reader))
                return
    if cur["k"] != "Path" or "local" not in cur["res"]:
        if cur["k"] == "Call" and cur.get("callee", "") in WHOLE_CALLS:
            ctx.ok("JSON", RELOAD, "parsed text is the result of %s" % cur["callee"], hirq.loc(reader))
            return
        ctx.violation("JSON", RELOAD, "reader input not the whole file", hirq.loc(reader),
                      "%s is given `%s`: expected a buffer filled to end of file and passed whole (a slice or sub-range is a prefix of the record)" % (reader["callee"], shown[:100]))
        return
    lid, name = cur["res"]["local"], cur["res"]["name"]
    fills = []
    fname = {}
    for x in user_nodes(rfn):
        if x["k"] in ("MethodCall", "Call") and x["args"]:
            nm = x["name"] if x["k"] == "MethodCall" else short(x.get("callee", ""))
            a0 = nf.strip(x["args"][-1])
            if a0["k"] == "Path" and a0["res"].get("local") == lid and nm in WHOLE_FILLERS + PARTIAL_FILLERS:
                fills.append(x)
                fname[id(x)] = nm
    bad = [x for x in fills if fname[id(x)] in PARTIAL_FILLERS]
    good = [x for x in fills if fname[id(x)] in WHOLE_FILLERS]
    if good and not bad and all(before(rfn, g, reader) for g in good):
        ctx.ok("JSON", RELOAD, "parsed buffer `%s` is filled by %s" % (name, fname[id(good[0])]), hirq.loc(reader))
    else:
        ctx.violation("JSON", RELOAD, "reader input not the whole file", hirq.loc(bad[0] if bad else reader),
                      "%s parses `%s`, filled by %s: expected read_to_string / read_to_end (or fs::read*) before the parse — one `read` call or a "
                      "fixed-size buffer returns a prefix of the file" % (reader["callee"], shown[:60], [fname[id(x)] for x in fills] or "nothing recognised"))


def run(ctx, facts):
    for k, v in RULES.items():
        ctx.rule(k, v)
    ctx.extra["explanation"] = (
        "Structural clauses of C20: panic-edge inventory and error flow of reload_json, shape of the persisted form (derived serde on a "
        "braced struct, to_writer / from_reader to EOF), open modes and file name agreement between dump and reload.")
    ctx.not_decided[:] = ["exactness of a and b after the round trip (serde_json float printing/parsing)"]
    rfn, dfn = facts.fn(RELOAD), facts.fn(DUMP)
    # 1 PANIC on reload
    n = 0
    for e in panic.edges_of(facts, RELOAD):
        if e["expn"][1] in hirq.LOG_MACROS or e["expn"][0] in hirq.LOG_MACROS:
            continue
        n += 1
        d = "%s:%s" % (e["kind"], e["detail"])
        why = panic.unwrap_guarded_by_check(e) if "unwrap" in e["detail"] else None
        if why:
            ctx.ok("PANIC", RELOAD, "%s [DISCHARGED: %s]" % (d[:70], why[:80]), e["where"])
        else:
            ctx.violation("PANIC", RELOAD, "%s:%s" % (e["kind"], re.sub(r"^(Result|Option)::unwrap on ", r"\1::unwrap on ", e["detail"]))[:110], e["where"],
                          "`%s` can abort reload_json: a truncated or corrupt parameters file must be reported as Err" % d[:120])
    # zero panic edges is a legitimate state (e.g. `match` instead of is_err()/unwrap()); what must not shrink is the body inspected
    from .. import mirq
    ctx.floor("C20 call terminators of reload_json inspected for panic edges", len(list(mirq.calls(rfn["mir"]))), 5)
    for e in panic.edges_of(facts, DUMP):
        if e["expn"][1] in hirq.LOG_MACROS:
            continue
        ctx.info("dump_json panic edge (information; the property does not say dump never aborts): %s at %s" % (e["detail"], e["where"]))
    # 2 ERRFLOW
    t = tree_of(rfn)
    nres = 0
    for x in user_nodes(rfn):
        if x["k"] in ("Call", "MethodCall") and x.get("ty", "").startswith("std::result::Result<") and not hirq.from_expansion(x):
            # skip constructors Ok(..)/Err(..)
            if x["k"] == "Call" and short(x.get("callee", "") or hirq.show(x["f"])) in ("Ok", "Err"):
                continue
            nres += 1
            par = t.parent.get(id(x))
            ok = None
            # climb through method chains (map_err, map, context ...)
            cur = x
            while par is not None and par["k"] == "MethodCall" and par["recv"] is cur and par["name"] in ("map_err", "map", "or_else", "and_then", "context", "with_context"):
                cur = par
                par = t.parent.get(id(par))
            if par is not None and par["k"] == "Call" and short(par.get("callee", "")) == "branch":
                ok = "propagated with ?"
            elif par is not None and par["k"] == "Let" and par["pat"]["k"] == "Bind":
                name = par["pat"]["name"]
                tested = [y for y in user_nodes(rfn) if y["k"] == "MethodCall" and y["name"] in ("is_err", "is_ok") and nf.nf(y["recv"]) == name]
                matched = [y for y in user_nodes(rfn) if y["k"] == "Match" and nf.nf(y["e"]) == name]
                if tested or matched:
                    ok = "bound to `%s`, which is tested with %s" % (name, "is_err()" if tested else "match")
            elif par is not None and par["k"] in ("Ret",) or (par is not None and par["k"] == "Block" and par.get("expr") is cur and t.parent.get(id(par)) is None):
                ok = "returned"
            elif par is not None and par["k"] == "Match" and par["e"] is cur:
                ok = "matched"
            if ok:
                ctx.ok("ERRFLOW", RELOAD, "%s: %s" % (hirq.show(x)[:50], ok), hirq.loc(x))
            else:
                ctx.violation("ERRFLOW", RELOAD, "Result of %s not propagated" % short(x.get("callee", "") or x.get("name", "")), hirq.loc(x),
                              "the Result of `%s` is neither propagated with `?`, tested and returned, nor matched: a failure here is dropped or turned into a panic" % hirq.show(x)[:70])
    ctx.floor("C20 fallible calls in reload_json", nres, 2)
    # 3 JSON
    s = facts.struct(P)
    ser = [i for i in facts.impls if i["self_ty"] == P and str(i.get("trait_def", "")).endswith("_serde::Serialize")]
    de = [i for i in facts.impls if i["self_ty"] == P and str(i.get("trait_def", "")).endswith("_serde::Deserialize")]
    where = "%s:%d" % (s["sp"][0], s["sp"][1])
    if len(ser) == 1 and len(de) == 1 and ser[0]["derived"] and de[0]["derived"]:
        ctx.ok("JSON", P, "Serialize and Deserialize are derived (automatically_derived impls)", where)
    else:
        ctx.violation("JSON", P, "serde impls", where, "expected exactly one derived Serialize and one derived Deserialize impl; found %d/%d (derived: %s)" % (len(ser), len(de), [i["derived"] for i in ser + de]))
    bad_attrs = [a for a in s["attrs"] if "serde" in a and "DocComment" not in a]
    if bad_attrs:
        ctx.violation("JSON", P, "serde attribute", where, "serde attributes change the persisted form: %s" % bad_attrs[0][:100])
    names = [f["name"] for f in s["fields"]]
    if len(names) >= 1 and all(names):
        ctx.ok("JSON", P, "braced struct with named fields %s: serialised as a JSON object {..}, which is self-delimiting" % names, where)
    else:
        ctx.violation("JSON", P, "struct shape", where, "a tuple/unit struct would not be serialised as a JSON object")
    # the deserialiser must require every field: the derived visit_map reports missing_field for each
    vm = [f for k, f in facts.fns.items() if "SetSketchParams>::deserialize::__Visitor" in k and k.endswith("visit_map")]
    if vm:
        missing = sum(1 for x in hirq.walk(vm[0]["hir"]) if x["k"] == "Call" and short(x.get("callee", "")) == "missing_field")
        if missing >= len(names):
            ctx.ok("JSON", P, "derived visit_map reports missing_field for each of the %d fields (no serde(default))" % len(names), where)
        else:
            ctx.violation("JSON", P, "optional fields", where, "only %d of %d fields are required by the deserialiser: a torn file could yield default parameters" % (missing, len(names)))
    # field attributes (`deserialize_with`, `serialize_with`, `with`, `getter`, …) make the derived code call functions of this
    # crate: the derived impls may only call into serde / std and their own generated items
    from .. import mirq as _mirq
    gen = {k: f for k, f in facts.fns.items() if "_serde::Serialize for %s>" % P in k or "_serde::Deserialize<'de> for %s>" % P in k}
    hooks = []
    ncalls = 0
    for k, f in gen.items():
        if "mir" not in f:
            continue
        for (_i, t_) in _mirq.calls(f["mir"]):
            ncalls += 1
            c = t_.get("callee", "")
            if c in facts.fns and c not in gen:
                hooks.append((k, c, t_))
    ctx.floor("C20 calls of the derived serde impls inspected", ncalls, 20)
    if hooks:
        for (k, c, t_) in hooks[:3]:
            ctx.violation("JSON", P, "custom (de)serialisation hook %s" % short(c), where,
                          "the derived serde code of SetSketchParams calls the crate's own `%s` (a serialize_with / deserialize_with / with attribute): "
                          "the persisted form of a field is no longer serde's own exact representation of its type" % c)
    else:
        ctx.ok("JSON", P, "the derived serde impls call only serde/std and their own generated items (%d calls in %d generated functions)" % (ncalls, len(gen)), where)
    sfn = [f for k, f in gen.items() if k.endswith("::serialize") and "_serde::Serialize for" in k and "hir" in f]
    if sfn:
        nser = sum(1 for x in hirq.walk(sfn[0]["hir"]) if x["k"] in ("Call", "MethodCall") and short(x.get("callee", "") or x.get("name", "")) == "serialize_field")
        if nser == len(names):
            ctx.ok("JSON", P, "the derived serialize writes each of the %d fields (no serde(skip))" % nser, where)
        else:
            ctx.violation("JSON", P, "fields not serialised", where, "the derived serialize writes %d of %d fields: a skipped field cannot come back from the file" % (nser, len(names)))
    writers = [x for x in user_nodes(dfn) if x["k"] == "Call" and x.get("callee", "") in ("serde_json::to_writer", "serde_json::to_writer_pretty")]
    # all three demand end of input after the value (trailing characters are an error)
    readers = [x for x in user_nodes(rfn) if x["k"] == "Call" and x.get("callee", "") in ("serde_json::from_reader", "serde_json::from_str", "serde_json::from_slice")]
    if len(writers) == 1 and nf.nf(writers[0]["args"][1]) == "self":
        ctx.ok("JSON", DUMP, "written by %s(writer, self)" % writers[0]["callee"], hirq.loc(writers[0]))
        # the write happens on every call that does not fail: nothing but an error return may leave dump_json before it, and it
        # is under no condition (a "file unchanged, skip the write" shortcut keeps whatever the old file held)
        from ..rulelib import before as _before
        td = tree_of(dfn)
        w_ = writers[0]
        early = [x for x in user_nodes(dfn) if x["k"] == "Ret" and _before(dfn, x, w_) and "Err" not in (hirq.show(x["e"])[:40] if "e" in x else "")]
        wconds = nf.all_conditions(td, w_)
        if early or wconds:
            x_ = early[0] if early else w_
            ctx.violation("JSON", DUMP, "write skipped on some path", hirq.loc(x_),
                          "dump_json can return success without writing the parameters (%s): a later reload returns what an earlier dump left in the file"
                          % ("`return %s` when %s" % (hirq.show(early[0]["e"])[:30] if "e" in early[0] else "", nf.control_facts(td, early[0])[:1]) if early else "the write is conditional on %s" % wconds[:1]))
        else:
            ctx.ok("JSON", DUMP, "the write is unconditional: only error returns precede it", hirq.loc(w_))
    else:
        ctx.violation("JSON", DUMP, "writer", hirq.loc(dfn), "expected exactly one serde_json::to_writer(.., self); found %d" % len(writers))
    if len(readers) == 1 and any(P in sub for sub in readers[0].get("substs", [])):
        ctx.ok("JSON", RELOAD, "read by %s into SetSketchParams (whole input, trailing data is an error)" % readers[0]["callee"], hirq.loc(readers[0]))
        whole_input(ctx, rfn, readers[0])
        # returned unchanged
        body = rfn["hir"]
        tail = nf.strip(body["expr"]) if "expr" in body else None
        okret = False
        if tail is not None and tail["k"] == "Call" and short(tail.get("callee", "") or hirq.show(tail["f"])) == "Ok":
            a = nf.strip(tail["args"][0])
            if a["k"] == "Path" and "local" in a["res"]:
                ds = def_exprs(rfn, a["res"]["name"])
                okret = len(ds) == 1 and any(y is readers[0] for y in hirq.walk(ds[0]))
            else:
                okret = any(y is readers[0] for y in hirq.walk(a))
        if okret:
            ctx.ok("JSON", RELOAD, "the parsed value is returned unchanged", hirq.loc(tail))
        else:
            ctx.violation("JSON", RELOAD, "returned value", hirq.loc(rfn), "reload_json does not return the parsed value unchanged")
    else:
        ctx.violation("JSON", RELOAD, "reader", hirq.loc(rfn), "expected exactly one serde_json::from_reader / from_str / from_slice into SetSketchParams; found %d" % len(readers))
    # 4 OPEN
    dch, droot, dpath, dn = open_chain(dfn)
    rch, rroot, rpath, rn = open_chain(rfn)
    if dch is None or rch is None:
        ctx.violation("OPEN", DUMP if dch is None else RELOAD, "open chain", hirq.loc(dfn if dch is None else rfn), "no OpenOptions..open() chain found")
        return
    dd = dict((m, a) for (m, a) in dch)
    if dd.get("write") == ["true"] and dd.get("create") == ["true"] and dd.get("truncate") == ["true"] and "append" not in dd:
        ctx.ok("OPEN", DUMP, "write(true).create(true).truncate(true)", hirq.loc(dn))
    else:
        ctx.violation("OPEN", DUMP, "open mode", hirq.loc(dn), "the dump file is opened with %s; without truncate(true) a shorter dump leaves a tail of the previous file" % dch)
    rd = dict((m, a) for (m, a) in rch)
    if rd.get("read") == ["true"] and not (set(rd) - {"read"}):
        ctx.ok("OPEN", RELOAD, "read(true)", hirq.loc(rn))
    else:
        ctx.violation("OPEN", RELOAD, "open mode", hirq.loc(rn), "the reload file is opened with %s" % rch)
    from ..rulelib import resolver_of
    Rd, Rr = resolver_of(dfn), resolver_of(rfn)
    # resolved: a path built by a shared private helper (`json_filepath(dirpath)`, inlined) is the helper's expression over the argument
    dj = [nf.nf(e, res=Rd) for e in def_exprs(dfn, dpath)] if re.match(r"^\w+$", dpath) else [nf.nf(dn["args"][0], res=Rd)]
    rj = [nf.nf(e, res=Rr) for e in def_exprs(rfn, rpath)] if re.match(r"^\w+$", rpath) else [nf.nf(rn["args"][0], res=Rr)]
    dd_, rd_ = hirq.show_pat(dfn["params"][1]["pat"]), hirq.show_pat(rfn["params"][0]["pat"])
    djn = [x.replace(dd_ + ".join(", "DIR.join(", 1) for x in dj]
    rjn = [x.replace(rd_ + ".join(", "DIR.join(", 1) for x in rj]
    if djn == rjn and len(djn) == 1 and re.match(r"^DIR\.join\(.+\)$", djn[0]):
        ctx.ok("OPEN", RELOAD, "both sides use %s" % dj[0], hirq.loc(rn))
    else:
        ctx.violation("OPEN", RELOAD, "file name", hirq.loc(rn), "dump writes %s but reload reads %s" % (dj, rj))
