"""C03 — SuperMinHash / SuperMinHash2 unbiased: structural preconditions ONLY (the expectation is not decided)."""
import re

from .. import hirq, nf
from ..rulelib import tree_of, user_nodes, writes_to_self, self_method_calls, resolver_of, check_seeds
from . import C04, C13, C14, C17

SMH, SMH2 = C04.SMH, C04.SMH2

RULES = {
    "PRE": "structural preconditions shared with C04/C13/C14/C17: per-item generator seeded from the item hash (SEED), registers are "
           "guarded minima of item-derived values (GUARD, PROV), the histogram bound only skips draws that cannot improve a position "
           "(EXIT, HISTO), the permutation restarts from the identity for every item (COUNTER + MARKER for the inline shuffle, "
           "RESETBEFORE + verified reset for FYshuffle), the estimator is matches/m (EST)",
    "DRAW": "the j-th draw of an item assigns the value u + j (u a fresh Uniform[0,1) sample; SuperMinHash2: a fresh uniform integer at "
            "level j) to the j-th element of the item's random permutation: SuperMinHash swaps positions j and k with k drawn "
            "uniformly from [j, m) (Fisher-Yates step), SuperMinHash2 takes the next element of the per-item FYshuffle",
}


def draw_rule(ctx, facts):
    # SuperMinHash: inline Fisher-Yates step and value u + j
    fid = SMH + "sketch"
    fn = facts.fn(fid)
    R = resolver_of(fn)
    J = C04.draw_counter(fn)
    RNG = None
    sw = self_method_calls(fn, "p", ["swap"])
    okswap = False
    if len(sw) == 1:
        args = [nf.nf(a, True, res=R) for a in sw[0]["args"]]
        other = [a for a in args if a != J]
        m = re.match(r"^rand_distr::Uniform::<X>::new\(%s, self\.hsketch\.len\(\)\)\.unwrap\(\)\.sample\((\w+)\)$" % re.escape(J), other[0]) if len(other) == 1 and J in args else None
        if m:
            okswap = True
            RNG = m.group(1)
    if okswap:
        ctx.ok("DRAW", fid, "p.swap(%s, k) with k ~ Uniform[%s, m): Fisher-Yates step" % (J, J), hirq.loc(sw[0]))
    else:
        ctx.violation("DRAW", fid, "shuffle step", hirq.loc(sw[0]) if sw else hirq.loc(fn),
                      "the inline shuffle must swap position %s with a position drawn uniformly from [%s, m) (Uniform::new(%s, m)); found swap(%s)" % (J, J, J, [nf.nf(a, True)[:40] for a in sw[0]["args"]] if sw else "none"))
    for (w, f, idx) in writes_to_self(fn, "hsketch"):
        v = nf.nf(w["r"], True, res=R)
        if re.match(r"^\(num::NumCast::from\(%s\)\.unwrap\(\) \+ rand_distr::Uniform::<X>::new\(num::zero\(\), num::one\(\)\)\.unwrap\(\)\.sample\(\w+\)\)$" % re.escape(J), v) and nf.nf(idx[0], True, res=R) == "self.p[%s]" % J:
            ctx.ok("DRAW", fid, "value written to hsketch[p[%s]] is Uniform[0,1) + %s" % (J, J), hirq.loc(w))
        else:
            ctx.violation("DRAW", fid, "draw value", hirq.loc(w), "the value offered to position p[%s] must be a fresh Uniform[0,1) sample plus %s; found `%s` at index `%s`" % (J, J, v[:120], nf.nf(idx[0], True)))
    # the two draws of one step come from the item's generator, u before k
    if facts.has(SMH2 + "sketch"):
        fid2 = SMH2 + "sketch"
        fn2 = facts.fn(fid2)
        R2 = resolver_of(fn2)
        J2 = C04.draw_counter(fn2)
        for (w, f, idx) in writes_to_self(fn2, "values"):
            v = nf.nf(w["r"], True, res=R2)
            k = nf.nf(idx[0], True, res=R2)
            if re.match(r"^rand_distr::Uniform::<X>::new\(0, core::num::<impl (usize|u64)>::MAX\)\.unwrap\(\)\.sample\(\w+\)$", v) and re.match(r"^self\.permut_generator\.next\(\w+\)$", k):
                ctx.ok("DRAW", fid2, "values[k] = fresh uniform integer, k = next element of the per-item permutation", hirq.loc(w))
            else:
                ctx.violation("DRAW", fid2, "draw value", hirq.loc(w), "values[k] must be a fresh uniform integer and k the next element of the per-item FYshuffle; found value `%s`, index `%s`" % (v[:80], k[:60]))
        for (w, f, idx) in writes_to_self(fn2, "l"):
            if nf.nf(w["r"], True, res=R2) != J2:
                ctx.violation("DRAW", fid2, "level", hirq.loc(w), "the level written to l[k] must be the draw counter %s" % J2)


def run(ctx, facts):
    for k, v in RULES.items():
        ctx.rule(k, v)
    for k in ("GUARD", "PROV", "SEED", "EXIT", "COUNTER", "RESETBEFORE", "HISTO", "MARKER", "PAIR"):
        ctx.rule(k, C04.RULES[k])
    ctx.extra["explanation"] = (
        "C03 is an expectation / variance statement over hash randomness and a uniform-permutation law; that is NOT decided. Decided "
        "are the structural preconditions anchored in its mechanisms: per-item generator, the j-th draw gives u + j to the j-th "
        "element of a per-item random permutation (Fisher-Yates step shape), the histogram bound, registers as guarded minima, the "
        "estimator as matches/m.")
    ctx.not_decided[:] = ["the expectation E[fraction of equal positions] = J and the variance bound", "uniformity of the permutation (law of the generator)",
                          "independence of the fractional parts"]
    has2 = facts.has(SMH2 + "sketch")
    table = {k: v for k, v in C04.SEED_TABLE.items() if k in (SMH + "sketch", SMH2 + "sketch") and facts.has(k)}
    n = check_seeds(ctx, facts, "SEED", table)
    ctx.floor("C03 SEED sites", n, 2 if has2 else 1)
    C04._smh(ctx, facts)
    if has2:
        C04._smh2(ctx, facts)
    C04._histo(ctx, facts, SMH + "sketch", "smh")
    C04._exit_aupper(ctx, facts, SMH + "sketch")
    ctx.rule("STEP", "the draw counter starts at 0 and advances by exactly one per iteration of the draw loop, after its last use in the "
                     "iteration and on every path to the next one (or it is the variable of `for j in 0..N`): the j-th draw carries level j")
    C04.counter_step(ctx, facts, SMH + "sketch")
    if has2:
        C04._histo(ctx, facts, SMH2 + "sketch", "smh2")
        C04._exit_aupper(ctx, facts, SMH2 + "sketch")
        C04.counter_step(ctx, facts, SMH2 + "sketch")
        C13.require_verified_reset(ctx, facts, [C13.FY], "RESETBEFORE")
        C04._resetbefore(ctx, facts, SMH2 + "sketch")
    C04._counter(ctx, facts)
    ctx.rule("REINIT", C04.RULES["REINIT"])
    ctx.rule("SKIP", C04.RULES["SKIP"])
    C13.require_verified_reset(ctx, facts, [C13.SMH, C13.SMH2], "REINIT")
    for fid in [SMH + "sketch"] + ([SMH2 + "sketch"] if has2 else []):
        C04.skip_rule(ctx, facts, fid)
    C04.nohash_rule(ctx, facts)
    C04.deleg_slice(ctx, facts, SMH + "sketch_slice")
    if has2:
        C04.deleg_slice(ctx, facts, SMH2 + "sketch_slice")
    draw_rule(ctx, facts)
    for fid in C14.COUNTING[2:]:
        if facts.has(fid):
            C14.est_template(ctx, facts, fid)
