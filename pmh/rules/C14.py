"""C14 — similarity estimators are total, symmetric and exact on their inputs (EST template, PANIC inventory, CLAMP)."""
import re

from .. import hirq, nf, panic
from ..rulelib import tree_of, user_nodes, for_loops, loop_exits, def_exprs, short, resolver_of

RULES = {
    "EST": "each counting estimator is: F1 a length comparison ending in a panic or an Err return, before the loop; F2 one loop over "
           "0..len of one argument with no early exit; F3 the only accumulation is `+= 1` under a[i] == b[i] with the same index on "
           "both sides; F4 the result is count / len up to casts. Symmetry, value 1 on identical input and the range [0,1] follow "
           "from the template; siblings are also compared with each other",
    "DELEG": "the two get_jaccard_index_estimate aliases are pure delegations to compute_superminhash_jaccard with the arguments in order",
    "PANIC": "every panic edge (MIR Assert, unwrap/expect, panicking call, index) of an estimator is a PRECONDITION (the length report), "
             "DISCHARGED by a machine-checked local argument, or ARGUED by a tabled one-line reason; anything else is a violation",
    "CLAMP": "the start value given to the golden-section solver is defined by a min/max/clamp chain over the two bracket bounds passed "
             "to GoldenSectionSearch::new (argmin 0.10.0 goldensectionsearch/mod.rs:156 requires start in [min,max]); the bracket is "
             "within [0,1]: lower bound literal 0, upper bound x.min(1/x) or clamped by 1",
}

COUNTING = [
    "jaccard::compute_probminhash_jaccard",
    "jaccard::get_jaccard_index_estimate",
    "superminhasher::SuperMinHash::<F, T, H>::get_jaccard_index_estimate",
    "superminhasher::compute_superminhash_jaccard",
    "superminhasher2::SuperMinHash2::<I, T, H>::get_jaccard_index_estimate",
    "superminhasher2::compute_superminhash_jaccard",
]
ALIASES = [("superminhasher::get_jaccard_index_estimate", "superminhasher::compute_superminhash_jaccard"),
           ("superminhasher2::get_jaccard_index_estimate", "superminhasher2::compute_superminhash_jaccard")]

MLE = "setsketcher::MleJaccard::"


def _resolve(fn, s):
    """replace single-definition locals in a normal-form string by their definition"""
    if re.match(r"^[a-z_][a-z0-9_]*$", s):
        ds = def_exprs(fn, s)
        if len(ds) == 1 and ds[0]["k"] != "AssignOp":
            return nf.nf(ds[0], True)
    return s


def _balanced(s):
    d = 0
    for ch in s:
        if ch == "(":
            d += 1
        elif ch == ")":
            d -= 1
            if d < 0:
                return False
    return d == 0


def count_helper(facts, fn):
    """an in-crate helper that returns the number of equal same-index pairs of its two slice parameters over the full
    range of one of them: returns (index of a, index of b, range param index) or None"""
    t = tree_of(fn)
    fls = for_loops(fn)
    loops = [n for n in t.nodes if n["k"] == "Loop" and not hirq.in_log_macro(n)]
    if len(fls) != 1 or loops != [fls[0]["loop"]]:
        return None
    fl = fls[0]
    var = hirq.show_pat(fl["pat"])
    accs = [n for n in user_nodes(fn) if n["k"] in ("Assign", "AssignOp") and t.contains(fl["body"], n)]
    if len(accs) != 1 or accs[0]["k"] != "AssignOp" or accs[0]["op"] != "+=" or nf.nf(accs[0]["r"]) != "1":
        return None
    cnt = nf.nf(accs[0]["l"])
    conds = nf.all_conditions(t, accs[0], stop=fl["loop"])
    if len(conds) != 1 or conds[0][0] != "cmp" or conds[0][2] != "==":
        return None
    m1, m2 = re.match(r"^(\w+)\[(\w+)\]$", conds[0][1]), re.match(r"^(\w+)\[(\w+)\]$", conds[0][3])
    names = [hirq.show_pat(p["pat"]) for p in fn["params"]]
    if not m1 or not m2 or m1.group(2) != var or m2.group(2) != var or m1.group(1) == m2.group(1) or m1.group(1) not in names or m2.group(1) not in names:
        return None
    rng = nf.nf(fl["iter"], True)
    m = re.match(r"^std::ops::Range\{start:0, end:(\w+)\.len\(\)\}$", rng)
    if not m or m.group(1) not in (m1.group(1), m2.group(1)):
        return None
    if [k for (k, n) in loop_exits(fn, fl["loop"]) if k != "iterator-exhausted"]:
        return None
    body = fn["hir"]
    if "expr" not in body or nf.nf(body["expr"], True) != cnt or [nf.nf(e) for e in def_exprs(fn, cnt)][:1] != ["0"]:
        return None
    return (names.index(m1.group(1)), names.index(m2.group(1)), names.index(m.group(1)))


from ..rulelib import before as _before


def _early_return(fn, t, anchor, lens, R=None):
    """a `return` before `anchor` (the counting construct) that is not the report of a length mismatch (an Err value under a
    comparison of the two lengths), or None: a shortcut placed before the length check answers for inputs of different lengths"""
    for x in user_nodes(fn):
        if x["k"] == "Ret" and _before(fn, x, anchor) and not hirq.from_expansion(x):
            val = nf.nf(x["e"], True, res=R) if "e" in x else ""
            cf = nf.control_facts(t, x, res=R)
            about_len = any(f_[0] == "cmp" and {_resolve(fn, f_[1]), _resolve(fn, f_[3])} == lens for f_ in cf)
            if not (re.match(r"^(std::prelude::v1::|std::result::Result::)?Err\(", val) and about_len):
                return (x, val, cf)
    return None


def est_via_helper(ctx, facts, fid):
    """the estimator delegates the counting to an in-crate helper: F2/F3 are checked in the helper, F1/F4 in the caller"""
    fn = facts.fn(fid)
    t = tree_of(fn)
    where = hirq.loc(fn)
    calls = [n for n in user_nodes(fn) if n["k"] == "Call" and n.get("callee") in facts.fns and "hir" in facts.fns[n["callee"]] and not hirq.from_expansion(n)]
    if len(calls) != 1:
        return False
    c = calls[0]
    h = count_helper(facts, facts.fns[c["callee"]])
    if h is None:
        return False
    a, b = nf.nf(c["args"][h[0]], True), nf.nf(c["args"][h[1]], True)
    if a == b:
        return False
    lens = {"%s.len()" % a, "%s.len()" % b}
    fs = nf.early_facts(t, c)
    if not any(f[0] == "cmp" and f[2] == "==" and {_resolve(fn, f[1]), _resolve(fn, f[3])} == lens for f in fs):
        return False
    if _early_return(fn, t, c, lens):
        return False
    body = fn["hir"]
    rets = [n["e"] for n in user_nodes(fn) if n["k"] == "Ret" and "e" in n and _before(fn, c, n)] + ([body["expr"]] if "expr" in body else [])
    if len(rets) != 1:
        return False
    R = resolver_of(fn)
    r = nf.nf(rets[0], True, res=R)
    r = re.sub(r"^std::prelude::v1::Ok\((.*)\)$", r"\1", r)
    callnf = nf.nf(c, True, res=R)
    r = r.replace("num::NumCast::from(", "(").replace(").unwrap()", ")")
    while r.startswith("(") and r.endswith(")") and _balanced(r[1:-1]):
        r = r[1:-1]
    ok = any(r in ("%s / %s" % (x, l), "(%s) / %s" % (x, l), "(%s) / (%s)" % (x, l), "%s / (%s)" % (x, l)) for x in (callnf,) for l in lens)
    if ok:
        ctx.ok("EST", fid, "length check; count delegated to %s (template verified there); result count / len" % short(c["callee"]), where)
        return c["callee"]
    return False


def est_via_delegation(ctx, facts, fid):
    """the whole estimate is another tabled counting estimator applied to the same two sketches: `[Ok(] other(a, b) [)]` with no
    other effect; the template is verified on `other` (it is in the COUNTING table and is checked in its own right)"""
    fn = facts.fn(fid)
    R = resolver_of(fn)
    body = fn["hir"]
    if "expr" not in body or [n for n in user_nodes(fn) if n["k"] in ("Ret", "Assign", "AssignOp") or (n["k"] == "MethodCall" and n.get("recv_ty", "").startswith("&mut "))]:
        return False
    e = nf.strip(body["expr"])
    if e["k"] == "Call" and short(e.get("callee", "") or hirq.show(e["f"])) == "Ok" and len(e["args"]) == 1:
        e = nf.strip(e["args"][0])
    if e["k"] == "Path" and "local" in e["res"]:
        d = R.lookup(e["res"]["local"], e)
        e = nf.strip(d) if d is not None else e
    if e["k"] != "Call" or e.get("callee") not in COUNTING or e.get("callee") == fid or len(e["args"]) != 2:
        return False
    params = [hirq.show_pat(p["pat"]) for p in fn["params"]]
    args = [nf.nf(a, True, res=R) for a in e["args"]]
    own = [p for p in params if p != "self"]
    if len(set(args)) == 2 and all(a in own or a.startswith("self.") for a in args):
        ctx.ok("EST", fid, "the estimate is %s(%s) unchanged (template verified on that function)" % (short(e["callee"]), ", ".join(args)), hirq.loc(fn))
        return e["callee"]
    return False


def est_via_fold(ctx, facts, fid):
    """(0..len).fold(0, |acc, i| if a[i] == b[i] { acc + 1 } else { acc }) — the counting loop as a fold over the index range"""
    fn = facts.fn(fid)
    t = tree_of(fn)
    where = hirq.loc(fn)
    R = resolver_of(fn)
    folds = [n for n in user_nodes(fn) if n["k"] == "MethodCall" and n["name"] == "fold" and len(n["args"]) == 2 and n["args"][1]["k"] == "Closure"]
    if len(folds) != 1:
        return False
    c = folds[0]
    cl = c["args"][1]
    if nf.nf(c["args"][0], True) != "0" or len(cl["params"]) != 2 or any(p_.get("k") != "Bind" for p_ in cl["params"]):
        return False
    acc, var = cl["params"][0]["name"], cl["params"][1]["name"]
    rng = nf.nf(c["recv"], True, res=R)
    m = re.match(r"^std::ops::Range\{start:0, end:(.*)\}$", rng)
    body = nf.strip(cl["body"])
    if not m or body["k"] != "If" or "e" not in body:
        return False
    cond = nf.strip(body["c"])
    if cond["k"] != "Binary" or cond["op"] != "==":
        return False
    m1 = re.match(r"^(.*)\[(\w+)\]$", nf.nf(cond["l"], True, res=R))
    m2 = re.match(r"^(.*)\[(\w+)\]$", nf.nf(cond["r"], True, res=R))
    then_, else_ = nf.nf(body["t"], True).strip("{}").strip(), nf.nf(body["e"], True).strip("{}").strip()
    if not m1 or not m2 or m1.group(2) != var or m2.group(2) != var or m1.group(1) == m2.group(1) \
            or then_ not in ("(%s + 1)" % acc, "(1 + %s)" % acc) or else_ != acc:
        return False
    a, b = m1.group(1), m2.group(1)
    lens = {"%s.len()" % a, "%s.len()" % b}
    if _resolve(fn, m.group(1)) not in lens and m.group(1) not in lens:
        ctx.violation("EST", fid, "F2 range", hirq.loc(c), "the fold ranges over 0..%s; expected 0..len of one of the two sketches" % m.group(1))
        return True
    fs = nf.early_facts(t, c, res=R)
    if not any(fc[0] == "cmp" and fc[2] == "==" and {_resolve(fn, fc[1]), _resolve(fn, fc[3])} == lens for fc in fs):
        ctx.violation("EST", fid, "F1 length check", hirq.loc(c), "no length comparison of the two sketches that panics or returns Err precedes the fold (facts: %s)" % fs[:3])
        return True
    er = _early_return(fn, t, c, lens)
    if er:
        ctx.violation("EST", fid, "F1 early return", hirq.loc(er[0]),
                      "`return %s` when %s precedes the count: only the report of a length mismatch may leave the estimator early" % (er[1][:40], er[2][:2]))
        return True
    bodyb = fn["hir"]
    rets = [n["e"] for n in user_nodes(fn) if n["k"] == "Ret" and "e" in n and _before(fn, c, n)] + ([bodyb["expr"]] if "expr" in bodyb else [])
    if len(rets) != 1:
        return False
    r = nf.nf(rets[0], True, res=R)
    r = re.sub(r"^std::prelude::v1::Ok\((.*)\)$", r"\1", r)
    r = r.replace("num::NumCast::from(", "(").replace(").unwrap()", ")")
    while r.startswith("(") and r.endswith(")") and _balanced(r[1:-1]):
        r = r[1:-1]
    cn = nf.nf(c, True, res=R)
    if any(r in ("%s / %s" % (cn, l), "(%s) / %s" % (cn, l), "%s / (%s)" % (cn, l), "(%s) / (%s)" % (cn, l)) for l in lens):
        ctx.ok("EST", fid, "length check; (0..len).fold(0, +1 iff %s[i] == %s[i]) / len" % (a, b), where)
        return True
    ctx.violation("EST", fid, "F4 result", hirq.loc(rets[0]), "the result is `%s`; expected <count> / <sketch length>" % r[:100])
    return True


def est_via_zip(ctx, facts, fid):
    """a.iter().zip(b.iter()).filter(|(x, y)| x == y).count() — the other accepted counting idiom"""
    fn = facts.fn(fid)
    t = tree_of(fn)
    where = hirq.loc(fn)
    R = resolver_of(fn)
    counts = [n for n in user_nodes(fn) if n["k"] == "MethodCall" and n["name"] == "count" and not n["args"]]
    if len(counts) != 1:
        return False
    c = counts[0]
    f = nf.strip(c["recv"])
    # `.inspect(|..| trace!(..))` passes every element through unchanged; accepted when its closure only logs
    while f["k"] == "MethodCall" and f["name"] == "inspect" and len(f["args"]) == 1 and f["args"][0]["k"] == "Closure":
        b_ = f["args"][0]["body"]
        inner_ = [x for x in hirq.walk(b_) if x is not b_ and x["k"] not in ("Block",)]
        # (the macro's arguments keep their call-site spans: pure reads of the closure's parameters)
        if not all(hirq.in_log_macro(x) or x["k"] in ("Path", "Field", "AddrOf", "Lit", "Tup") or (x["k"] == "Unary" and x["op"] == "*") for x in inner_):
            return False
        f = nf.strip(f["recv"])
    if f["k"] != "MethodCall" or f["name"] != "filter" or len(f["args"]) != 1 or f["args"][0]["k"] != "Closure":
        return False
    z = nf.strip(f["recv"])
    if z["k"] != "MethodCall" or z["name"] != "zip" or len(z["args"]) != 1:
        return False

    def base(e):
        e = nf.strip(e)
        while e["k"] == "MethodCall" and e["name"] in ("iter", "into_iter") and not e["args"]:
            e = nf.strip(e["recv"])
        return nf.nf(e, True)
    a, b = base(z["recv"]), base(z["args"][0])
    cl = f["args"][0]
    if len(cl["params"]) != 1 or a == b:
        return False
    pt = cl["params"][0]
    while pt["k"] in ("Ref",):
        pt = pt["sub"]
    if pt["k"] != "Tuple" or len(pt["subs"]) != 2:
        return False
    x, y = hirq.show_pat(pt["subs"][0]), hirq.show_pat(pt["subs"][1])
    body = nf.strip(cl["body"])
    if body["k"] != "Binary" or body["op"] != "==" or {nf.nf(body["l"], True), nf.nf(body["r"], True)} != {x, y}:
        return False
    lens = {"%s.len()" % a, "%s.len()" % b}
    fs = nf.early_facts(t, c)
    if not any(fc[0] == "cmp" and fc[2] == "==" and {_resolve(fn, fc[1]), _resolve(fn, fc[3])} == lens for fc in fs):
        ctx.violation("EST", fid, "F1 length check", hirq.loc(c), "zip() silently stops at the shorter sketch and no length comparison that panics or returns Err precedes it (facts: %s)" % fs[:3])
        return True
    er = _early_return(fn, t, c, lens)
    if er:
        ctx.violation("EST", fid, "F1 early return", hirq.loc(er[0]),
                      "`return %s` when %s precedes the count: only the report of a length mismatch may leave the estimator early" % (er[1][:40], er[2][:2]))
        return True
    bodyb = fn["hir"]
    rets = [n["e"] for n in user_nodes(fn) if n["k"] == "Ret" and "e" in n and _before(fn, c, n)] + ([bodyb["expr"]] if "expr" in bodyb else [])
    if len(rets) != 1:
        return False
    r = nf.nf(rets[0], True, res=R)
    r = re.sub(r"^std::prelude::v1::Ok\((.*)\)$", r"\1", r)
    r = r.replace("num::NumCast::from(", "(").replace(").unwrap()", ")")
    while r.startswith("(") and r.endswith(")") and _balanced(r[1:-1]):
        r = r[1:-1]
    cn = nf.nf(c, True, res=R)
    if any(r in ("%s / %s" % (cn, l), "(%s) / %s" % (cn, l)) for l in lens):
        ctx.ok("EST", fid, "length check; %s.zip(%s).filter(==).count() / len" % (a, b), where)
        return True
    ctx.violation("EST", fid, "F4 result", hirq.loc(rets[0]), "the result is `%s`; expected <count> / <sketch length>" % r[:100])
    return True


def _while_front(ctx, fid, fn, t, loop):
    """the counting loop written `let mut i = 0; while i < len { ..a[i] == b[i].. ; i += 1; .. }` (rulelib.counted_loop): the index is the
    iteration number, the loop runs len times, the one `count += 1` is guarded by one equality a[i] == b[i] whose two reads are made
    before the index is stepped (directly, or through an immutable flag `let same = a[i] == b[i]` computed before the step)"""
    from ..rulelib import counted_loop
    from .. import ratfn
    R = resolver_of(fn)
    cl = counted_loop(fn, loop)
    if cl is None:
        ctx.violation("EST", fid, "F2 loop", hirq.loc(loop), "the loop is neither a `for` over a range nor a counted `while` (one unconditional top-level step of the index)")
        return None
    var = cl["var"]
    T = (ratfn.p_atom("#t"), ratfn.ONE)
    if not ratfn.equal(cl["value"](loop), T):
        ctx.violation("EST", fid, "F2 range", hirq.loc(loop), "the index `%s` is not the iteration number (it must start at 0 and advance by one)" % var)
        return None
    body = cl["body"]
    accs = [n for n in user_nodes(fn) if n["k"] in ("Assign", "AssignOp") and t.contains(body, n) and n is not cl["step"]]
    if len(accs) != 1 or accs[0]["k"] != "AssignOp" or accs[0]["op"] != "+=" or nf.nf(accs[0]["r"]) != "1":
        ctx.violation("EST", fid, "F3 accumulation", hirq.loc(loop), "the loop body must contain exactly one `count += 1` beside the index step; found %s" % [nf.nf(a_)[:40] for a_ in accs])
        return None
    acc = accs[0]
    cnt = nf.nf(acc["l"])
    cs = [(c_, pol) for (c_, pol) in t.conditions(acc, stop=loop) if c_ is not cl.get("guard")]
    if len(cs) != 1 or cs[0][1] not in (True, False):
        ctx.violation("EST", fid, "F3 condition", hirq.loc(acc), "`%s += 1` must be guarded by exactly one equality a[i] == b[i]; conditions: %s" % (cnt, nf.all_conditions(t, acc, stop=body)))
        return None
    cnode, pol = nf.strip(cs[0][0]), cs[0][1]
    while cnode["k"] == "Unary" and cnode["op"] == "!":
        cnode, pol = nf.strip(cnode["e"]), not pol
    site = cnode
    if cnode["k"] == "Path" and "local" in cnode["res"]:
        ds = def_exprs(fn, cnode["res"]["name"])
        d_ = R.defs.get(cnode["res"]["local"]) if hasattr(R, "defs") else None
        if len(ds) != 1 or d_ is None:
            ctx.violation("EST", fid, "F3 condition", hirq.loc(acc), "the flag `%s` guarding `%s += 1` is not an immutable local with one definition" % (cnode["res"]["name"], cnt))
            return None
        site = nf.strip(d_)
        while site["k"] == "Unary" and site["op"] == "!":
            site, pol = nf.strip(site["e"]), not pol
    if site["k"] != "Binary" or site["op"] not in ("==", "!=") or (site["op"] == "==") != bool(pol):
        ctx.violation("EST", fid, "F3 condition", hirq.loc(acc), "`%s += 1` is not counted exactly when a[i] == b[i] (found `%s`, polarity %s)" % (cnt, nf.nf(site, True)[:60], pol))
        return None
    if not ratfn.equal(cl["value"](site), T):
        ctx.violation("EST", fid, "F3 compared elements", hirq.loc(site), "the comparison reads the index after it has been advanced: it compares position i+1")
        return None
    m1 = re.match(r"^(.*)\[(\w+)\]$", nf.nf(site["l"], True))
    m2 = re.match(r"^(.*)\[(\w+)\]$", nf.nf(site["r"], True))
    if not m1 or not m2 or m1.group(2) != var or m2.group(2) != var or m1.group(1) == m2.group(1):
        ctx.violation("EST", fid, "F3 compared elements", hirq.loc(site), "the comparison `%s` is not a[%s] == b[%s] on the two sketches with the loop index on both sides" % (nf.nf(site, True)[:60], var, var))
        return None
    a, b = m1.group(1), m2.group(1)
    lens = {"%s.len()" % a, "%s.len()" % b}
    if not any(ratfn.equal(cl["count"], (ratfn.p_atom(l_), ratfn.ONE)) for l_ in lens):
        ctx.violation("EST", fid, "F2 range", hirq.loc(loop), "the loop runs %s times; expected the length of one of the two sketches (%s)" % (ratfn.show(cl["count"]), sorted(lens)))
        return None
    return ({"match": loop, "loop": loop}, R, var, acc, cnt, a, b, lens)


def est_template(ctx, facts, fid):
    fn = facts.fn(fid)
    t = tree_of(fn)
    where = hirq.loc(fn)
    fls = for_loops(fn)
    if not [n for n in t.nodes if n["k"] == "Loop" and not hirq.in_log_macro(n)]:
        dg = est_via_delegation(ctx, facts, fid)
        if dg:
            return ("delegate", dg)
        hid = est_via_helper(ctx, facts, fid)
        if hid:
            return ("helper", hid)
        if est_via_zip(ctx, facts, fid):
            return ("zip", None)
        if est_via_fold(ctx, facts, fid):
            return ("fold", None)
    loops_all = [n for n in t.nodes if n["k"] == "Loop" and not hirq.in_log_macro(n)]
    wf = None
    if not (len(fls) == 1 and loops_all == [fls[0]["loop"]]) and len(loops_all) == 1 and loops_all[0].get("src") == "While":
        wf = _while_front(ctx, fid, fn, t, loops_all[0])
        if wf is None:
            return None
    if wf is not None:
        fl, R, var, acc, cnt, a, b, lens = wf
    else:
      if True:
        if len(fls) != 1 or [n for n in t.nodes if n["k"] == "Loop" and not hirq.in_log_macro(n)] != [fls[0]["loop"]]:
            ctx.violation("EST", fid, "F2 loop", where, "expected exactly one for loop, found %d loop(s)" % len([n for n in t.nodes if n["k"] == "Loop"]))
            return None
        fl = fls[0]
        R = resolver_of(fn)
        var = hirq.show_pat(fl["pat"])
        # F3: the accumulation
        accs = [n for n in user_nodes(fn) if n["k"] in ("Assign", "AssignOp") and t.contains(fl["body"], n)]
        # `count += (a[i] == b[i]) as <int>` adds 1 exactly when the comparison holds and 0 otherwise: the same accumulation as
        # `if a[i] == b[i] { count += 1 }`; the comparison then plays the part of the guard
        as_int = None
        if len(accs) == 1 and accs[0]["k"] == "AssignOp" and accs[0]["op"] == "+=":
            r_ = nf.strip(accs[0]["r"])
            if r_["k"] == "Cast" and r_.get("ty") in ("i32", "u32", "usize", "u64", "i64", "u8", "u16", "isize"):
                e_ = nf.strip(r_["e"])
                if e_["k"] == "Path" and "local" in e_["res"] and R.lookup(e_["res"]["local"], e_) is not None:
                    e_ = nf.strip(R.lookup(e_["res"]["local"], e_))
                if e_["k"] == "Binary" and e_["op"] == "==" and e_.get("ty", "bool") == "bool":
                    as_int = e_
        if len(accs) != 1 or accs[0]["k"] != "AssignOp" or accs[0]["op"] != "+=" or (nf.nf(accs[0]["r"]) != "1" and as_int is None):
            ctx.violation("EST", fid, "F3 accumulation", hirq.loc(fl["loop"]), "the loop body must contain exactly one `count += 1`; found %s" % [nf.nf(a)[:40] for a in accs])
            return None
        acc = accs[0]
        cnt = nf.nf(acc["l"])
        conds = nf.all_conditions(t, acc, stop=fl["loop"], res=R)
        if as_int is not None:
            conds = conds + nf.atoms(as_int, True, res=R)
        eq = [c for c in conds if c[0] == "cmp" and c[2] == "=="]
        if len(conds) != 1 or len(eq) != 1:
            ctx.violation("EST", fid, "F3 condition", hirq.loc(acc), "`%s += 1` must be guarded by exactly one equality a[i] == b[i]; conditions: %s" % (cnt, conds))
            return None
        zipped = None
        itn = nf.strip(fl["iter"])
        if itn["k"] == "MethodCall" and itn["name"] == "zip" and len(itn["args"]) == 1 and fl["pat"]["k"] == "Tuple" and len(fl["pat"]["subs"]) == 2:
            def _base(e):
                e = nf.strip(e)
                while e["k"] == "MethodCall" and e["name"] in ("iter", "into_iter") and not e["args"]:
                    e = nf.strip(e["recv"])
                return nf.nf(e, True)
            px, py = hirq.show_pat(fl["pat"]["subs"][0]), hirq.show_pat(fl["pat"]["subs"][1])
            if {eq[0][1], eq[0][3]} == {px, py}:
                zipped = (_base(itn["recv"]), _base(itn["args"][0]))
        if zipped is not None and zipped[0] != zipped[1]:
            # for (x, y) in a.iter().zip(b.iter()) { if x == y { count += 1 } }: same-index pairs over the common length,
            # which is the full length once F1 has established equal lengths
            a, b = zipped
            lens = {"%s.len()" % a, "%s.len()" % b}
        else:
            m1 = re.match(r"^(.*)\[(\w+)\]$", eq[0][1])
            m2 = re.match(r"^(.*)\[(\w+)\]$", eq[0][3])
            if not m1 or not m2 or m1.group(2) != var or m2.group(2) != var or m1.group(1) == m2.group(1):
                ctx.violation("EST", fid, "F3 compared elements", hirq.loc(acc), "the comparison `%s == %s` is not a[%s] == b[%s] on the two sketches with the loop index on both sides" % (eq[0][1], eq[0][3], var, var))
                return None
            a, b = m1.group(1), m2.group(1)
            lens = {"%s.len()" % a, "%s.len()" % b}
            # F2: range and exits
            rng = nf.nf(fl["iter"], True, res=R)
            m = re.match(r"^std::ops::Range\{start:(.*), end:(.*)\}$", rng)
            if not m or m.group(1) != "0" or _resolve(fn, m.group(2)) not in lens:
                ctx.violation("EST", fid, "F2 range", hirq.loc(fl["loop"]), "the loop ranges over `%s`; expected 0..len of one of the two sketches (%s)" % (rng, sorted(lens)))
                return None
    exits = [k for (k, n) in loop_exits(fn, fl["loop"]) if k != "iterator-exhausted" and not (wf is not None and k == "guard")]
    if exits:
        ctx.violation("EST", fid, "F2 early exit", hirq.loc(fl["loop"]), "the counting loop can be left early (%s)" % exits)
        return None
    # F1: the length comparison before the loop
    facts_before = nf.early_facts(t, fl["match"], res=R)
    # the same report written as a branch: `if a.len() == b.len() { count .. Ok(..) } else { Err(..) | panic }`
    for (cn_, pol_) in t.conditions(fl["match"]):
        if_ = t.parent.get(id(cn_))
        if pol_ is True and if_ is not None and if_["k"] == "If" and "e" in if_:
            el = nf.strip(if_["e"])
            while el["k"] == "Block" and "expr" in el and all(hirq.in_log_macro(s_) for s_ in el["stmts"]):
                el = nf.strip(el["expr"])
            if nf._diverges(if_["e"]) or re.match(r"^(std::prelude::v1::|std::result::Result::)?Err\(", nf.nf(el, True)):
                facts_before = facts_before + nf.atoms(cn_, True, res=R)
    okf1 = False
    for f in facts_before:
        if f[0] == "cmp" and f[2] == "==":
            if {_resolve(fn, f[1]), _resolve(fn, f[3])} == lens:
                okf1 = True
    if not okf1:
        ctx.violation("EST", fid, "F1 length check", hirq.loc(fl["loop"]), "no length comparison of the two sketches that panics or returns Err precedes the loop (facts established before the loop: %s): a prefix would be compared" % facts_before[:3])
        return None
    # F1': nothing but the length report leaves the function before the loop — a shortcut `if <something> { return 1. }` placed
    # before the length check answers for inputs whose lengths differ (e.g. two views of one buffer)
    er = _early_return(fn, t, fl["match"], lens, R)
    if er:
        ctx.violation("EST", fid, "F1 early return", hirq.loc(er[0]),
                      "`return %s` when %s precedes the counting loop: only the report of a length mismatch may leave the estimator early" % (er[1][:40], er[2][:2]))
        return None
    # the counter starts at 0 and is not otherwise written
    cdefs = [nf.nf(e) for e in def_exprs(fn, cnt)]
    if cdefs != ["0", "%s += 1" % cnt] and cdefs != ["0", nf.nf(acc)]:
        ctx.violation("EST", fid, "F3 counter", hirq.loc(acc), "the counter `%s` is defined by %s, expected `= 0` and one `+= 1`" % (cnt, cdefs))
        return None
    # F4: the result
    rets = [n["e"] for n in user_nodes(fn) if n["k"] == "Ret" and "e" in n and _before(fn, fl["match"], n)]
    body = fn["hir"]
    if "expr" in body:
        te = body["expr"]
        # the value of the block that holds the loop (the function's tail may be the `if lengths agree {..} else {Err}` branch)
        for _ in range(6):
            te_ = nf.strip(te)
            if te_["k"] == "If" and t.contains(te_["t"], fl["match"]):
                te = te_["t"]
            elif te_["k"] == "If" and "e" in te_ and t.contains(te_["e"], fl["match"]):
                te = te_["e"]
            elif te_["k"] == "Block" and "expr" in te_ and t.contains(te_, fl["match"]) and not t.contains(te_["expr"], fl["match"]):
                te = te_["expr"]
                break
            else:
                break
        rets.append(te)
    if len(rets) != 1:
        ctx.violation("EST", fid, "F4 result", where, "expected one result expression after the loop, found %d" % len(rets))
        return None
    r = nf.nf(rets[0], True, res=R)
    r = re.sub(r"^std::prelude::v1::Ok\((.*)\)$", r"\1", r)
    r = _resolve(fn, r)
    r = r.replace("num::NumCast::from(", "(").replace(").unwrap()", ")")
    r = re.sub(r"\((\w[\w.()]*)\)", r"\1", r)
    while r.startswith("(") and r.endswith(")") and _balanced(r[1:-1]):
        r = r[1:-1]
    mm = re.match(r"^(.+?) / (.+)$", r)
    if mm and _resolve(fn, mm.group(2)) in lens:
        r = "%s / %s" % (mm.group(1), _resolve(fn, mm.group(2)))
        mm = re.match(r"^(.+?) / (.+)$", r)
    if not mm or mm.group(1) != cnt or mm.group(2) not in lens:
        ctx.violation("EST", fid, "F4 result", hirq.loc(rets[0]), "the result is `%s`; expected %s / <sketch length>" % (r, cnt))
        return None
    ctx.ok("EST", fid, "length check; for %s in 0..len; %s += 1 iff %s[%s] == %s[%s]; result %s" % (var, cnt, a, var, b, var, r), where)
    return (a, b)


PANIC_COUNTING = [
    (r"^call:panic:core::panicking::assert_failed$", "PRECONDITION", "the length mismatch report (F1)", 1),
    (r"^assert:bounds\(usize,usize\)$", "DISCHARGED", "index is the loop variable of 0..len and the lengths are equal (EST F1+F2+F3)", 4),
    (r"^call:index:&std::vec::Vec<.*>$", "DISCHARGED", "index is the loop variable of 0..len and the lengths are equal (EST F1+F2+F3)", 4),
    (r"^assert:overflow:Add\((usize,usize|i32,i32|u32,u32|u64,u64)\)$", "ARGUED", "the counter is incremented at most len times; a hand-stepped index (counted `while`, EST F2) is below len when it is incremented", 2),
    (r"^call:Option::unwrap on num::NumCast::from$", "ARGUED", "usize -> float conversion is total for f32/f64", 2),
]

PANIC_MLE = {
    MLE + "get_mle": [
        (r"^call:panic:core::panicking::assert_failed$", "PRECONDITION", "sketch length differs from the sketcher's m: 'sketches built with the same parameters'", 2),
        (r"^assert:bounds\(usize,usize\)$", "ARGUED", "i ranges over 0..sketch1.len() and both lengths equal self.m by the two assertions", 4),
        (r"^assert:overflow:Add\(u32,u32\)$", "ARGUED", "three counters incremented at most m times in total", 3),
        (r"^call:Result::unwrap on argmin::solver::goldensectionsearch::GoldenSectionSearch::new$", "ARGUED",
         "new fails only if min >= max (argmin 0.10.0 goldensectionsearch/mod.rs:90); min = 0 and max = min(n1/n2, n2/n1) > 0 for positive finite cardinal estimates (sums of m positive terms)", 1),
        (r"^call:Result::unwrap on argmin::core::Executor::run$", "CLAMP", "discharged by the CLAMP rule", 1),
        (r"^call:Result::unwrap on <setsketcher::MleCost as argmin::core::CostFunction>::cost$", "NEVERFAILS:<setsketcher::MleCost as argmin::core::CostFunction>::cost", "", 2),
        (r"^call:Option::unwrap on setsketcher::MleJaccard::get_mle_approx_b1$", "NEVERFAILS:setsketcher::MleJaccard::get_mle_approx_b1", "", 1),
    ],
    MLE + "get_cardinal_estimate": [
        (r"^call:panic:core::panicking::assert_failed$", "PRECONDITION", "sketch length differs from m", 1),
        (r"^call:Option::unwrap on num::ToPrimitive::to_f64$", "ARGUED", "integer register -> f64 conversion is total", 1),
    ],
    MLE + "get_mle_approx_b1": [
        (r"^call:panic:core::panicking::assert_failed$", "PRECONDITION", "sketch length differs from m", 2),
        (r"^assert:bounds\(usize,usize\)$", "ARGUED", "i ranges over 0..sketch1.len() and both lengths equal self.m", 4),
        (r"^assert:overflow:Add\(u32,u32\)$", "ARGUED", "three counters incremented at most m times in total", 3),
    ],
    "setsketcher::MleCost::pb": [
        (r'^call:panic:"assertion failed: !val\.is_nan\(\)"$', "ARGUED", "x in [-1,1] and b in (1,2]: both logarithm arguments are positive, so val is not NaN", 1),
    ],
    "<setsketcher::MleCost as argmin::core::CostFunction>::cost": [],
}


TABLED = set()


def panic_table(ctx, facts, fid, table, _seen=None, _counts=None):
    """classifies every panic edge of fid; in-crate callees that have no table of their own (extracted helpers) are
    inventoried under the caller's table, so moving code into a helper neither hides an edge nor raises an alarm"""
    seen = _seen if _seen is not None else set()
    seen.add(fid)
    counts = _counts if _counts is not None else {}
    n = 0
    for callee in panic.incrate_callees(facts, fid):
        if callee in seen or callee in PANIC_MLE or callee in COUNTING or callee.startswith(("<LOG", "init_log")):
            continue
        if not facts.fns[callee].get("hir"):
            continue
        n += panic_table(ctx, facts, callee, table, seen, counts)
    for e in panic.edges_of(facts, fid):
        if e["expn"][1] in hirq.LOG_MACROS or e["expn"][0] in hirq.LOG_MACROS:
            continue
        n += 1
        d = "%s:%s" % (e["kind"], e["detail"])
        row = next((r for r in table if re.search(r[0], d)), None)
        if row is None:
            ctx.violation("PANIC", fid, d[:100], e["where"], "panic edge `%s` has no justification: the estimator could abort on valid input" % d[:140])
            continue
        counts[row[0]] = counts.get(row[0], 0) + 1
        if counts[row[0]] > row[3]:
            ctx.violation("PANIC", fid, d[:100] + " (extra)", e["where"], "more `%s` edges than the %d justified by the table: a new panic edge of this kind was added" % (d[:100], row[3]))
            continue
        cls = row[1]
        if cls.startswith("NEVERFAILS:"):
            callee = cls.split(":", 1)[1]
            if panic.fn_never_fails(facts, callee):
                ctx.ok("PANIC", fid, "%s [DISCHARGED: %s constructs no Err/None and uses no `?`]" % (d[:70], short(callee)), e["where"])
            else:
                ctx.violation("PANIC", fid, d[:100], e["where"], "unwrap of %s, which can now return Err/None" % callee)
        elif cls == "CLAMP":
            pass    # decided by clamp_rule
        else:
            ctx.ok("PANIC", fid, "%s [%s: %s]" % (d[:70], cls, row[2][:80]), e["where"])
    return n


def _minmax_chain(e, bounds):
    """e is built from min/max/clamp calls whose operands include both bounds: returns True if the value is
    provably within [lo, hi] syntactically: x.max(lo).min(hi), x.min(hi).max(lo), x.clamp(lo, hi)"""
    lo, hi = bounds
    s = nf.nf(e, True)
    pats = [r"^.*\.max\(%s\)\.min\(%s\)$" % (re.escape(lo), re.escape(hi)), r"^.*\.min\(%s\)\.max\(%s\)$" % (re.escape(hi), re.escape(lo)),
            r"^.*\.clamp\(%s, %s\)$" % (re.escape(lo), re.escape(hi))]
    return any(re.match(p, s) for p in pats)


def clamp_rule(ctx, facts):
    fid = MLE + "get_mle"
    fn = facts.fn(fid)
    news = [n for n in user_nodes(fn) if n["k"] == "Call" and short(n.get("callee", "")) == "new" and "GoldenSectionSearch" in n.get("callee", "")]
    params = [n for n in hirq.walk(fn["hir"]) if n["k"] == "MethodCall" and n["name"] == "param" and not hirq.in_log_macro(n)]
    if len(news) != 1 or len(params) != 1:
        ctx.violation("CLAMP", fid, "solver setup", hirq.loc(fn), "expected one GoldenSectionSearch::new and one state.param(..); found %d / %d" % (len(news), len(params)))
        return
    lo, hi = nf.nf(news[0]["args"][0], True), nf.nf(news[0]["args"][1], True)
    start = params[0]["args"][0]
    sdef = start
    s = nf.strip(start)
    if s["k"] == "Path" and "local" in s["res"]:
        ds = def_exprs(fn, s["res"]["name"])
        if len(ds) == 1:
            sdef = ds[0]
    if _minmax_chain(sdef, (lo, hi)):
        ctx.ok("CLAMP", fid, "start value `%s` is clamped into [%s, %s], the bounds given to GoldenSectionSearch::new" % (nf.nf(sdef, True), lo, hi), hirq.loc(params[0]))
    else:
        ctx.violation("CLAMP", fid, "start value not clamped into the bracket", hirq.loc(params[0]),
                      "the solver is started at `%s`, which is not a min/max/clamp chain over the bracket bounds (%s, %s): Executor::run().unwrap() panics when the start lies outside the bracket (nested sets of very unequal size)" % (nf.nf(sdef, True), lo, hi))
    # bracket within [0,1]
    lod = [nf.nf(e, True) for e in def_exprs(fn, lo)] if re.match(r"^\w+$", lo) else [lo]
    hid = [nf.nf(e, True) for e in def_exprs(fn, hi)] if re.match(r"^\w+$", hi) else [hi]
    ok_lo = lod in (["0.0"], ["0"])
    ok_hi = len(hid) == 1 and (re.match(r"^(\w+)\.min\(\(1\.0 / \1\)\)$", hid[0]) or re.match(r"^\(1\.0 / (\w+)\)\.min\(\1\)$", hid[0]) or re.match(r"^.*\.min\(1\.0\)$", hid[0]))
    if ok_lo and ok_hi:
        ctx.ok("CLAMP", fid, "bracket [%s, %s] = [0, %s] lies within [0,1]" % (lo, hi, hid[0]), hirq.loc(news[0]))
    else:
        ctx.violation("CLAMP", fid, "bracket not within [0,1]", hirq.loc(news[0]), "the search bracket is [%s, %s] with definitions %s / %s; expected lower bound 0 and upper bound x.min(1/x)" % (lo, hi, lod, hid))
    # the value returned is the solver's best parameter
    body = fn["hir"]
    tail = nf.nf(body["expr"], True) if "expr" in body else ""
    if tail == "state.best_param":
        ctx.ok("CLAMP", fid, "returns the solver's best parameter (inside the bracket)", hirq.loc(body["expr"]))
    else:
        ctx.violation("CLAMP", fid, "returned value", hirq.loc(fn), "get_mle returns `%s`, expected the solver's best_param (which lies in the bracket)" % tail)


def run(ctx, facts):
    for k, v in RULES.items():
        ctx.rule(k, v)
    ctx.extra["explanation"] = (
        "The six counting estimators are matched against a four-slot template (length check, full-range loop, count of equal "
        "same-index pairs, count/len) and their panic edges are inventoried on MIR; the two aliases are pure delegations. For the "
        "MLE estimator every panic edge is classified, the optimiser's start value must be clamped into the bracket given to the "
        "solver and the bracket must lie in [0,1].")
    ctx.not_decided[:] = ["that the optimiser's result is the likelihood maximum"]
    have = [f for f in COUNTING if facts.has(f)]
    ctx.floor("C14 counting estimators", len(have), 6 if facts.has(COUNTING[5]) else 4)
    ne = 0
    for fid in have:
        r = est_template(ctx, facts, fid)
        ne += panic_table(ctx, facts, fid, PANIC_COUNTING)
        if r and r[0] == "helper":
            ne += panic_table(ctx, facts, r[1], PANIC_COUNTING)
    for (alias, target) in ALIASES:
        if not facts.has(alias):
            continue
        fn = facts.fn(alias)
        body = nf.nf(fn["hir"], True).strip("{}")
        body = re.sub(r"^return ", "", body)
        params = [hirq.show_pat(p["pat"]) for p in fn["params"]]
        if body == "%s(%s)" % (target, ", ".join(params)):
            ctx.ok("DELEG", alias, "pure delegation to %s(%s)" % (short(target), ", ".join(params)), hirq.loc(fn))
        else:
            ctx.violation("DELEG", alias, "alias body", hirq.loc(fn), "expected `%s(%s)`, found `%s`" % (target, ", ".join(params), body[:100]))
        ne += panic_table(ctx, facts, alias, [])
    for fid, table in PANIC_MLE.items():
        ne += panic_table(ctx, facts, fid, table)
    ctx.floor("C14 panic edges classified", ne, 20)
    clamp_rule(ctx, facts)
    # the likelihood estimators always produce a value: no `None` / `Err` is constructed and nothing is propagated with `?`
    ctx.rule("TOTAL", "MleJaccard::get_mle and get_mle_approx_b1 construct no None / Err and use no `?`: every call returns a value "
                      "(whether the optimiser converged or stopped on its iteration budget)")
    for name in ("get_mle", "get_mle_approx_b1"):
        fid_ = MLE + name
        if not facts.has(fid_):
            continue
        if panic.fn_never_fails(facts, fid_):
            ctx.ok("TOTAL", fid_, "constructs no None/Err, no `?`", hirq.loc(facts.fn(fid_)))
        else:
            bad = [n for n in hirq.walk(facts.fn(fid_)["hir"]) if (n["k"] == "Path" and n["res"].get("path", "").endswith(("::Err", "::None")) and not hirq.from_expansion(n))
                   or (n["k"] == "Match" and str(n.get("src", "")).startswith("TryDesugar"))]
            ctx.violation("TOTAL", fid_, "estimator can return no value", hirq.loc(bad[0]) if bad else hirq.loc(facts.fn(fid_)),
                          "%s can now give up (`%s`): for some valid pair of sketches the caller gets no estimate at all" % (name, hirq.show(bad[0])[:40] if bad else "?"))
