"""C11 — ProbOrdMinHash2 selects per position independently of sequence order (structural clauses)."""
import re

from .. import hirq, nf, slicer
from ..rulelib import (check_seeds, check_roots, tree_of, slicer_of, user_nodes, writes_to_self, self_method_calls,
                       hir_dominates, for_loops, loop_exits, def_exprs, short, while_body, resolver_of)

POM = "probminhasher::probordminhash2::ProbOrdMinHash2::<H>::"
OMS = "probminhasher::probordminhash2::OrdMinHashStore::<V>::"

RULES = {
    "EXIT": "the race loop of hash_set is left only when no position can accept the value: the loop guard x < max_tracker."
            "get_max_value(), !max_tracker.is_update_possible(x) on the same x, or the slot-count bound (nb_inserted + 1 >= m). A "
            "break derived from a per-slot result is illegitimate",
    "SEED": "the per-(element, occurrence) generator seed depends on the element (through b_hasher), the occurrence count "
            "(self.counter) and self.seed — all three required — and never on the sequence index",
    "PROV": "the sequence index flows only into OrdMinHashStore.indices; race values stored in OrdMinHashStore.values depend on "
            "the offered value only; values and indices move together in the insertion shifts",
    "COUNT-STORE": "the occurrence number of each element is written back to the counter map on every path of the per-element loop, "
                   "under one key (the element hash)",
    "STORE-TRACK": "a position's tracker entry is its l-th smallest stored value: a value is accepted only below values[last] and the "
                   "tracker is updated with values[last] read after the insertion",
    "MUSTPASS": "in create_signature the sort of self.indices[start..end] dominates every read of self.indices for that position; "
                "the combining hasher is created per position from self.wyhash_seed and fed hash_one(&data[idx]) of exactly the l "
                "indices of that position, in index order; one push per position",
    "RESETBEFORE": "permut_generator.reset() dominates permut_generator.next() inside each iteration of the per-element loop",
    "TRACKERSHAPE": "is_update_possible(v) is v < values[last_index] and get_max_value is values[last_index] (shared with C02)",
}

SEED_TABLE = {
    POM + "hash_set": [
        dict(callee="with_seed", allowed=["self.seed"], required=["self.seed"], optional=True),
        dict(callee="seed_from_u64", allowed=["param #1:*", "self.b_hasher", "self.counter", "self.seed"],
             required=["param #1:*", "self.counter", "self.seed"], optional=True),
        dict(callee="from_seed", allowed=["param #1:*", "self.b_hasher", "self.counter", "self.seed"],
             required=["param #1:*", "self.counter", "self.seed"], optional=True),
    ],
}


def race_loop(fn):
    t = tree_of(fn)
    loops = [n for n in t.nodes if n["k"] == "Loop" and n["src"] in ("While", "Loop") and not hirq.in_log_macro(n) and len(t.enclosing_loops(n)) == 1]
    return loops


from ..rulelib import before as _before


def exit_rule(ctx, facts):
    fid = POM + "hash_set"
    fn = facts.fn(fid)
    t = tree_of(fn)
    loops = race_loop(fn)
    if len(loops) != 1:
        ctx.violation("EXIT", fid, "race loop", hirq.loc(fn), "expected exactly one race loop nested in the per-element loop, found %d" % len(loops))
        return 0
    loop = loops[0]
    n = 0
    # the loop over the elements of the sequence ends only when the sequence does: a `break` / `return` there drops the elements
    # that follow, whatever the reason (one element may be abandoned with `continue` on a legitimate condition only)
    from ..rulelib import for_loops
    for f in for_loops(fn):
        if t.contains(f["body"], loop):
            for (kind, node) in loop_exits(fn, f["loop"]):
                if kind == "iterator-exhausted" or (node.get("target") is not None and node["target"] != f["loop"]["id"]):
                    continue
                if kind in ("break", "return", "try"):
                    n += 1
                    ctx.violation("EXIT", fid, "%s out of the loop over the sequence" % kind, hirq.loc(node),
                                  "`%s` leaves the loop over the elements of the sequence (taken when %s): the elements that follow are never raced, "
                                  "the result is silently the signature of a prefix" % (kind, nf.all_conditions(t, node, stop=f["loop"])[:1]))
    # the race value: the argument offered to update_with_maxtracker
    offers = [c for c in self_method_calls(fn, "min_store", ["update_with_maxtracker"])]
    xs = {nf.nf(c["args"][1], True) for c in offers}
    if len(offers) != 1 or len(xs) != 1:
        ctx.violation("EXIT", fid, "offer", hirq.loc(loop), "expected exactly one update_with_maxtracker call in the race loop, found %d" % len(offers))
        return 0
    x = list(xs)[0]
    for (kind, node) in loop_exits(fn, loop):
        n += 1
        where = hirq.loc(node)
        if kind in ("return", "try"):
            ctx.violation("EXIT", fid, kind, where, "the race loop is left by `%s`" % kind)
            continue
        conds = nf.all_conditions(t, node, stop=loop)
        inner = conds[0] if conds else None

        def classify(it):
            if it is None:
                return None
            if it[0] == "cmp" and it[2] in ("<=", "<") and it[1] == "self.max_tracker.get_max_value()" and it[3] == x:
                return "MAX"
            if it == ("truth", "self.max_tracker.is_update_possible(%s)" % x, False):
                return "MAX"
            if it[0] == "cmp" and it[2] in ("<=", "<") and it[1] == "self.m":
                # slot-count bound: the other side is <counter> or <counter> + 1 for a local that starts at 0 and is incremented once per draw
                mm = re.match(r"^\(?(?:1 \+ )?([A-Za-z_][A-Za-z0-9_]*)\)?$", it[3])
                if mm:
                    ds = [nf.nf(d) for d in def_exprs(fn, mm.group(1))]
                    if ds == ["0", "%s += 1" % mm.group(1)]:
                        return "COUNT"
            if it[0] == "or":
                # `if A || B { break }`: every alternative must be a legitimate reason on its own
                cl = [classify(alt[0]) if len(alt) == 1 else None for alt in it[1]]
                return "+".join(cl) if cl and all(cl) else None
            return None
        cls = classify(inner)
        if cls and (kind == "guard" or len(conds) == 1 or all(c == conds[0] or c[0] == "cmp" and c[3] == "self.max_tracker.get_max_value()" for c in conds)):
            ctx.ok("EXIT", fid, "%s exit (%s) when %s" % (kind, cls, inner), where)
        else:
            ctx.violation("EXIT", fid, "break on per-slot result" if inner and inner[0] == "truth" else "illegitimate exit", where,
                          "the race for this (element, occurrence) pair is abandoned when %s, although other positions may still accept the value %s (only the loop guard, !is_update_possible(%s) or the slot bound may end it)"
                          % (inner, x, x))
    # the counter compared with m counts one per draw
    return n


def finish_rule(ctx, facts):
    """FINISH: whatever hash_set returns is what create_signature computes from the store for the whole input: the tail (and any
    `return`) is `self.min_store.create_signature(data)` with the data parameter itself. A shortcut that builds the signature
    another way (a hash of the whole slice for a minimal-length input ..) can never collide with a signature built from the store."""
    from ..rulelib import resolver_of
    fid = POM + "hash_set"
    fn = facts.fn(fid)
    R = resolver_of(fn)
    ctx.rule("FINISH", "every value returned by ProbOrdMinHash2::hash_set is self.min_store.create_signature(data) for the data parameter "
                       "itself: no other way of producing a signature exists beside the store's")
    dname = hirq.show_pat(fn["params"][1]["pat"]) if len(fn.get("params", [])) > 1 else "data"
    outs = []
    body = fn["hir"]
    if body["k"] == "Block" and "expr" in body:
        outs.append(body["expr"])
    outs += [x["e"] for x in user_nodes(fn) if x["k"] == "Ret" and "e" in x]
    if not outs:
        ctx.violation("FINISH", fid, "cannot-establish: returned value", hirq.loc(fn), "hash_set has no tail expression and no `return e`")
        return
    for e in outs:
        e0 = nf.strip(e)
        for _ in range(4):
            if e0["k"] == "Path" and "local" in e0["res"] and R.lookup(e0["res"]["local"], e0) is not None:
                e0 = nf.strip(R.lookup(e0["res"]["local"], e0))
        good = e0["k"] == "MethodCall" and e0["name"] == "create_signature" and nf.nf(e0["recv"]) == "self.min_store" and len(e0["args"]) == 1 \
            and nf.nf(e0["args"][0]) == dname
        if good:
            ctx.ok("FINISH", fid, "returns self.min_store.create_signature(%s)" % dname, hirq.loc(e))
        else:
            ctx.violation("FINISH", fid, "signature built elsewhere", hirq.loc(e),
                          "hash_set returns `%s`, not self.min_store.create_signature(%s): this signature is not comparable with the ones the store produces" % (nf.nf(e0, True)[:100], dname))


def lenguard_rule(ctx, facts):
    """LENGUARD: hash_set refuses exactly the inputs shorter than l: the only way out before the races (panic or return) is under
    `data.len() < l` with l the store's l — `<=` would refuse the shortest legal sequence (length exactly l), a weaker test would
    let a too-short input reach the store"""
    from ..rulelib import resolver_of, tree_of, for_loops
    fid = POM + "hash_set"
    fn = facts.fn(fid)
    t = tree_of(fn)
    R = resolver_of(fn)
    ctx.rule("LENGUARD", "ProbOrdMinHash2::hash_set leaves before the races only under `data.len() < self.min_store.get_l()` (strict): every "
                         "sequence of length >= l is hashed")
    dname = hirq.show_pat(fn["params"][1]["pat"]) if len(fn.get("params", [])) > 1 else "data"
    fls = [f for f in for_loops(fn) if not t.enclosing_loops(f["loop"])]
    anchor = fls[0]["match"] if fls else None
    ifs = [x for x in user_nodes(fn) if x["k"] == "If" and not hirq.from_expansion(x) and nf._diverges(x["t"]) and (anchor is None or _before(fn, x, anchor))
           and not t.enclosing_loops(x)]
    L = ("self.min_store.get_l()", "self.min_store.l")
    n = 0
    for x in ifs:
        at = nf.atoms(x["c"], True, res=R)
        n += 1
        if len(at) == 1 and at[0][0] == "cmp" and at[0][2] == "<" and at[0][1] == "%s.len()" % dname and at[0][3] in L:
            ctx.ok("LENGUARD", fid, "rejects when %s.len() < l" % dname, hirq.loc(x))
        else:
            ctx.violation("LENGUARD", fid, "rejection condition", hirq.loc(x),
                          "hash_set gives up when %s; expected exactly `%s.len() < self.min_store.get_l()`: a sequence of length l is legal" % (at[:2], dname))
    if n == 0:
        ctx.info("%s: no rejecting test before the races (the store asserts the length itself)" % fid)


def absorb_rule(ctx, facts):
    """ABSORB: the mixing hasher that produces the per-pair seed absorbs the element hash and the occurrence number as separate
    words (one `write_*` each, the argument a plain value): combining them first with `^`, `+`, `|` … maps distinct
    (element, occurrence) pairs to the same word, and those pairs then run the same race"""
    fid = POM + "hash_set"
    fn = facts.fn(fid)
    t = tree_of(fn)
    R = resolver_of(fn)
    ctx.rule("ABSORB", "the hasher that mixes the per-pair seed absorbs the element hash and the occurrence number through separate write_* "
                       "calls whose arguments are plain values (a local, a field, a cast of one), at least two of them: no arithmetic or bitwise "
                       "combination of the two is absorbed as one word")
    mixers = [x for x in user_nodes(fn) if x["k"] == "Let" and x["pat"].get("k") == "Bind" and "init" in x
              and any(y["k"] == "Call" and short(y.get("callee", "")) == "with_seed" for y in hirq.walk(x["init"]))]
    if len(mixers) != 1:
        ctx.violation("ABSORB", fid, "cannot-establish: seed mixer", hirq.loc(fn), "expected one WyHash::with_seed(..) local that mixes the per-pair seed, found %d" % len(mixers))
        return
    mname = mixers[0]["pat"]["name"]
    writes = [x for x in user_nodes(fn) if x["k"] == "MethodCall" and x["name"].startswith("write") and nf.nf(x["recv"]) == mname]
    bad = []
    for w in writes:
        a = nf.strip_casts(w["args"][0]) if w["args"] else None
        # through immutable locals
        while a is not None and a["k"] == "Path" and "local" in a["res"]:
            d = R.lookup(a["res"]["local"], a)
            if d is None:
                break
            nxt = nf.strip_casts(d)
            if nxt["k"] in ("Binary", "AssignOp") or (nxt["k"] == "MethodCall" and nxt["name"] in ("wrapping_add", "wrapping_mul", "wrapping_sub", "rotate_left", "rotate_right", "bitxor", "bitor", "bitand")):
                a = nxt
                break
            if nxt["k"] != "Path":
                break
            a = nxt
        if a is not None and (a["k"] == "Binary" or (a["k"] == "MethodCall" and a["name"] in ("wrapping_add", "wrapping_mul", "wrapping_sub", "bitxor", "bitor", "bitand"))):
            bad.append((w, a))
    if bad:
        for (w, a) in bad:
            ctx.violation("ABSORB", fid, "combined word absorbed", hirq.loc(w),
                          "`%s` absorbs `%s`, a combination of values, as one word: distinct (element, occurrence) pairs that combine to the same word get the same generator" % (hirq.show(w)[:50], nf.nf(a, True)[:60]))
    elif len(writes) < 2:
        ctx.violation("ABSORB", fid, "single absorbed word", hirq.loc(mixers[0]), "the seed mixer absorbs %d word(s); the element hash and the occurrence number must each be absorbed" % len(writes))
    else:
        ctx.ok("ABSORB", fid, "seed mixer absorbs %s as separate words" % ", ".join(nf.nf(w["args"][0], True)[:20] for w in writes), hirq.loc(writes[0]))


def seed_rule(ctx, facts):
    n = check_seeds(ctx, facts, "SEED", SEED_TABLE)
    fid = POM + "hash_set"
    fn = facts.fn(fid)
    sl = slicer_of(fn)
    # the sequence index must only reach the data_idx argument
    for c in self_method_calls(fn, "min_store", ["update_with_maxtracker"]):
        r_val = {slicer.show_root(r) for r in sl.roots(c["args"][1])}
        r_idx = {slicer.show_root(r) for r in sl.roots(c["args"][2])}
        r_k = {slicer.show_root(r) for r in sl.roots(c["args"][0])}
        bad = [r for r in (r_val | r_k) if r == "enumerate index" or r.startswith("len(param #1")]
        if bad:
            ctx.violation("PROV", fid, "race value depends on the sequence position", hirq.loc(c),
                          "the value / slot offered to the store depends on %s: which pairs a position keeps would depend on where elements sit" % bad)
        else:
            ctx.ok("PROV", fid, "offered value and slot do not depend on the sequence index", hirq.loc(c))
        if r_idx - {"enumerate index"} - {r for r in r_idx if r.startswith("literal")}:
            ctx.violation("PROV", fid, "data index argument", hirq.loc(c), "the data index passed to the store is not the enumerate index: roots %s" % sorted(r_idx))
        else:
            ctx.ok("PROV", fid, "data index argument is the enumerate index", hirq.loc(c))
    return n


def _must_mutate(n, pred):
    """every path through n executes a node satisfying pred (loops and closures may run zero times)"""
    k = n["k"]
    if pred(n):
        return True
    if k == "Block":
        return any(_must_mutate(x, pred) for x in n["stmts"]) or ("expr" in n and _must_mutate(n["expr"], pred))
    if k == "Let":
        return "init" in n and _must_mutate(n["init"], pred)
    if k == "If":
        if _must_mutate(n["c"], pred):
            return True
        return "e" in n and _must_mutate(n["t"], pred) and _must_mutate(n["e"], pred)
    if k == "Match":
        if _must_mutate(n["e"], pred):
            return True
        return bool(n["arms"]) and all(_must_mutate(a["body"], pred) for a in n["arms"])
    if k in ("Loop", "Closure"):
        return False
    return any(_must_mutate(c, pred) for c in hirq.children(n))


def occurrence_rule(ctx, facts):
    """COUNT-STORE: the occurrence number of an element is written back to self.counter on every path, under the same key
    that the seed uses: otherwise all occurrences of an element share one race"""
    fid = POM + "hash_set"
    fn = facts.fn(fid)
    t = tree_of(fn)
    sl = slicer_of(fn)
    fls = [f for f in for_loops(fn) if not t.enclosing_loops(f["loop"])]
    if len(fls) != 1:
        ctx.violation("COUNT-STORE", fid, "per-element loop", hirq.loc(fn), "expected one per-element loop")
        return
    body = fls[0]["body"]

    def pred(n):
        if n["k"] == "MethodCall" and n["name"] == "insert" and nf.nf(n["recv"]) == "self.counter" and len(n["args"]) == 2:
            return True
        if n["k"] in ("AssignOp", "Assign"):
            l = n["l"]
            if l["k"] == "Unary" and l["op"] == "*":
                roots = {slicer.show_root(r) for r in sl.roots(l["e"])}
                return "self.counter" in roots and n["k"] == "AssignOp" and n["op"] == "+=" and nf.nf(n["r"]) == "1" or \
                    ("self.counter" in roots and n["k"] == "Assign")
            kind, key, proj, idx = slicer.base_place(l)
            if kind == "self" and key == "counter":
                return True
        return False

    keys = set()
    for n in hirq.walk(body):
        if n["k"] == "MethodCall" and nf.nf(n["recv"]) == "self.counter" and n["name"] in ("get_mut", "entry", "insert", "get") and n["args"]:
            keys.add(nf.nf(n["args"][0], True))
    if _must_mutate(body, pred) and len(keys) == 1:
        ctx.ok("COUNT-STORE", fid, "self.counter[%s] is updated on every path of the per-element loop" % list(keys)[0], hirq.loc(body))
    elif len(keys) != 1:
        ctx.violation("COUNT-STORE", fid, "counter keys", hirq.loc(body), "the occurrence counter is accessed under %d different keys %s" % (len(keys), sorted(keys)))
    else:
        ctx.violation("COUNT-STORE", fid, "occurrence number not stored", hirq.loc(body),
                      "on some path through the per-element loop the occurrence counter of the element is not written back (no `*count += 1` on the map entry and no insert): later occurrences of the element get the same number and run the same race")


def _store_params(fn):
    """names of (position, value, data index, tracker) parameters of update_with_maxtracker, by position"""
    ps = [hirq.show_pat(p["pat"]) for p in fn["params"]]
    return ps[1], ps[2], ps[3], ps[4]


def store_rules(ctx, facts):
    ctx.rule("STORE-SHIFT", "in the insertion of update_with_maxtracker a stored value is moved one cell up only under `new value < that stored "
                            "value`: the block of a position stays sorted and its last cell is its l-th smallest value")
    fid = OMS + "update_with_maxtracker"
    fn = facts.fn(fid)
    t = tree_of(fn)
    sl = slicer_of(fn)
    P_POS, P_VAL, P_IDX, P_TRK = _store_params(fn)
    ws = writes_to_self(fn)
    n = 0
    for (w, f, idx) in ws:
        if f not in ("values", "indices"):
            continue
        n += 1
        other = "indices" if f == "values" else "values"
        i = nf.nf(idx[0], True)
        blk = t.parent.get(id(w))
        mate = [x for (x, ff, ii) in ws if ff == other and t.parent.get(id(x)) is blk and nf.nf(ii[0], True) == i]
        r = nf.nf(w["r"], True)
        ok = False
        if mate:
            mr = nf.nf(mate[0]["r"], True)
            m1 = re.match(r"^self\.%s\[(.*)\]$" % f, r)
            m2 = re.match(r"^self\.%s\[(.*)\]$" % other, mr)
            if m1 and m2 and m1.group(1) == m2.group(1):
                ok = True       # shift: both arrays move the same element
                # … and the element moved up is one the new value is smaller than: the shift is guarded by `value < values[source]`
                # (comparing with another cell puts the new value one cell off, the block is then no longer sorted and its last cell
                # is not the l-th smallest value)
                if f == "values":
                    src_cell = "self.values[%s]" % m1.group(1)
                    cs_ = nf.control_facts(t, w)
                    if nf.has_cmp(cs_, P_VAL, ("<",), src_cell) is None:
                        ctx.violation("STORE-SHIFT", fid, "shift not guarded by the moved cell", hirq.loc(w),
                                      "`%s` moves %s up without `%s < %s` controlling it (conditions: %s): the insertion point is off and the block is no longer ordered"
                                      % (nf.nf(w)[:60], src_cell, P_VAL, src_cell, cs_[:2]))
                    else:
                        ctx.ok("STORE-SHIFT", fid, "%s moved up only while %s < it" % (src_cell, P_VAL), hirq.loc(w))
            elif not m1 and not m2:
                vals = {f: r, other: mr}
                ok = vals["values"] == P_VAL and vals["indices"] == P_IDX
        if ok:
            ctx.ok("PROV", fid, "%s[%s] = %s together with %s[%s]" % (f, i, r, other, i), hirq.loc(w))
        else:
            ctx.violation("PROV", fid, "%s write unpaired" % f, hirq.loc(w), "`%s` has no matching write of self.%s[%s] moving the same element: values and indices would fall out of step" % (nf.nf(w)[:60], other, i))
        allowed = ["param #2:*", "self.values"] if f == "values" else ["param #3:*", "self.indices"]
        check_roots(ctx, "PROV", fid, "value written to %s" % f, hirq.loc(w), sl.roots(w["r"]), allowed)
    # block shifts: `values.copy_within(r, d)` must come with `indices.copy_within(r, d)` (same range, same destination, same block)
    cw = {f_: [x for x in self_method_calls(fn, f_, ["copy_within"])] for f_ in ("values", "indices")}
    for f_, other in (("values", "indices"), ("indices", "values")):
        for x in cw[f_]:
            n += 1
            args = [nf.nf(a, True) for a in x["args"]]
            mate = [y for y in cw[other] if t.parent.get(id(y)) is t.parent.get(id(x)) and [nf.nf(a, True) for a in y["args"]] == args]
            if mate:
                ctx.ok("PROV", fid, "%s.copy_within(%s) together with %s.copy_within of the same block" % (f_, ", ".join(args)[:50], other), hirq.loc(x))
            else:
                ctx.violation("PROV", fid, "%s shifted alone" % f_, hirq.loc(x), "`%s` has no matching self.%s.copy_within with the same range and destination: values and indices would fall out of step" % (hirq.show(x)[:60], other))
    return n


def store_track(ctx, facts):
    """STORE-TRACK: a position's entry in the max tracker is its l-th smallest stored value: update_with_maxtracker accepts a value
    only if it is below values[last], and afterwards reports values[last] (read after the insertion) for the same position"""
    fid = OMS + "update_with_maxtracker"
    fn = facts.fn(fid)
    t = tree_of(fn)
    R = resolver_of(fn)
    P_POS, P_VAL, P_IDX, P_TRK = _store_params(fn)
    ups = [n for n in user_nodes(fn) if n["k"] == "MethodCall" and n["name"] == "update" and nf.nf(n["recv"]) == P_TRK]
    ins = [w for (w, f, i) in writes_to_self(fn, "values") if nf.nf(w["r"], True) == P_VAL]
    where = hirq.loc(fn)
    if len(ups) != 1 or len(ins) != 1:
        ctx.violation("STORE-TRACK", fid, "tracker report", where, "expected one insertion `values[..] = *value` and one tracker update per accepted value; found %d / %d" % (len(ins), len(ups)))
        return
    u = ups[0]
    conds = nf.control_facts(t, u, res=R)
    a0, a1 = nf.nf(u["args"][0], True, res=R), nf.nf(u["args"][1], True, res=R)
    lasts = {"self.values[(((%s * self.l) + self.l) - 1)]" % P_POS, "self.values[(((self.l * %s) + self.l) - 1)]" % P_POS, "self.values[((self.l + (%s * self.l)) - 1)]" % P_POS,
             "self.values[((self.l + (self.l * %s)) - 1)]" % P_POS, "self.values[((%s * self.l) + (self.l - 1))]" % P_POS, "self.values[((self.l * %s) + (self.l - 1))]" % P_POS}
    if a0 == P_POS and a1 in lasts and hir_dominates(t, ins[0], u) and nf.has_cmp(conds, P_VAL, ("<",), a1) is not None:
        ctx.ok("STORE-TRACK", fid, "accepted iff value < values[last of the position's block]; tracker.update(position, values[last]) after the insertion", hirq.loc(u))
    else:
        ctx.violation("STORE-TRACK", fid, "tracker report", hirq.loc(u),
                      "the tracker must be updated with (position, self.values[position*l + l - 1]) read after the insertion, under `*value < self.values[last]`; found update(%s, %s) under %s"
                      % (nf.nf(u["args"][0], True), nf.nf(u["args"][1], True), nf.all_conditions(t, u)[:2]))


def signature_rules(ctx, facts):
    fid = OMS + "create_signature"
    fn = facts.fn(fid)
    t = tree_of(fn)
    sl = slicer_of(fn)
    R = resolver_of(fn)
    DATA = hirq.show_pat(fn["params"][1]["pat"])
    fls = for_loops(fn)
    outer = [f for f in fls if not t.enclosing_loops(f["loop"])]
    if len(outer) != 1 or nf.nf(outer[0]["iter"], True, res=R) != "std::ops::Range{start:0, end:self.m}":
        ctx.violation("MUSTPASS", fid, "position loop", hirq.loc(fn), "expected one loop over positions 0..self.m")
        return 0
    o = outer[0]
    pos = hirq.show_pat(o["pat"])
    LO = {"(%s * self.l)" % pos, "(self.l * %s)" % pos}
    HI = {"(%s + self.l)" % lo for lo in LO} | {"(self.l + %s)" % lo for lo in LO}
    n = 0
    sorts = [c for c in user_nodes(fn) if c["k"] == "MethodCall" and c["name"] in ("sort_unstable", "sort") and t.contains(o["body"], c)]
    good_sorts = []
    for s_ in sorts:
        r = nf.strip(s_["recv"])
        if r["k"] == "Index" and nf.nf(r["base"]) == "self.indices":
            rng = nf.nf(r["idx"], True, res=R)
            m = re.match(r"^std::ops::Range\{start:(.*), end:(.*)\}$", rng)
            if m:
                good_sorts.append((s_, m.group(1), m.group(2)))
    if not good_sorts:
        ctx.violation("MUSTPASS", fid, "no sort of self.indices", hirq.loc(o["loop"]),
                      "no `self.indices[start..end].sort*()` in the per-position loop: the selected elements would be hashed in race-value order, not in sequence order")
        return 0
    srt, s_lo, s_hi = good_sorts[0]
    if s_lo in LO and s_hi in HI:
        ctx.ok("MUSTPASS", fid, "sorted range is [%s*l, %s*l + l)" % (pos, pos), hirq.loc(srt))
    else:
        ctx.violation("MUSTPASS", fid, "sorted range", hirq.loc(srt), "the sorted range is %s..%s; expected position*l .. position*l + l" % (s_lo, s_hi))
    n += 1
    # every read of self.indices in the position loop is dominated by the sort and addresses start + j, j in 0..l
    reads = [x for x in user_nodes(fn) if x["k"] == "Index" and nf.nf(x["base"]) == "self.indices" and t.contains(o["body"], x) and not t.contains(srt, x)]
    inner = [f for f in fls if t.contains(o["body"], f["loop"]) and f is not o]
    read_nf = None
    for rd in reads:
        n += 1
        il = [f for f in inner if t.contains(f["body"], rd)]
        ok_dom = hir_dominates(t, srt, rd)
        idx = nf.nf(rd["idx"], True, res=R)
        # form 2: the sorted range itself is iterated in order: `for [(j,)] x in self.indices[lo..hi].iter()[.enumerate()]`
        src_of = [f for f in inner if t.contains(f["iter"], rd)]
        if src_of and ok_dom:
            f_ = src_of[0]
            it = nf.strip(f_["iter"])
            enum = False
            while it["k"] == "MethodCall" and it["name"] in ("iter", "into_iter", "enumerate") and not it["args"]:
                enum = enum or it["name"] == "enumerate"
                it = nf.strip(it["recv"])
            mm = re.match(r"^std::ops::Range\{start:(.*), end:(.*)\}$", idx)
            pat = f_["pat"]
            elem = None
            if enum and pat["k"] == "Tuple" and len(pat["subs"]) == 2 and pat["subs"][1]["k"] == "Bind":
                elem = pat["subs"][1]["name"]
            elif not enum and pat["k"] == "Bind":
                elem = pat["name"]
            if it is rd and mm and mm.group(1) == s_lo and mm.group(2) == s_hi and s_lo in LO and s_hi in HI and elem:
                read_nf = elem
                ctx.ok("MUSTPASS", fid, "the sorted range self.indices[%s] is iterated in order (element `%s`), after the sort" % (idx, elem), hirq.loc(rd))
                continue
        jv = hirq.show_pat(il[0]["pat"]) if il else "?"
        ok_idx = bool(il) and nf.nf(il[0]["iter"], True, res=R) == "std::ops::Range{start:0, end:self.l}" and idx in {"(%s + %s)" % (jv, lo) for lo in LO} | {"(%s + %s)" % (lo, jv) for lo in LO}
        if ok_dom and ok_idx:
            read_nf = "self.indices[%s]" % idx
            ctx.ok("MUSTPASS", fid, "read of self.indices[start + %s] dominated by the sort, %s in 0..l" % (jv, jv), hirq.loc(rd))
        elif not ok_dom:
            ctx.violation("MUSTPASS", fid, "read before sort", hirq.loc(rd), "self.indices[%s] is read without the sort of this position's range dominating it" % nf.nf(rd["idx"], True))
        else:
            ctx.violation("MUSTPASS", fid, "index range", hirq.loc(rd), "self.indices[%s] is not addressed as position*l + j for j in 0..self.l" % nf.nf(rd["idx"], True))
    if not reads:
        ctx.violation("MUSTPASS", fid, "no reads", hirq.loc(o["loop"]), "the position loop never reads self.indices")
    # the combining hasher
    seedlets = [x for x in user_nodes(fn) if x["k"] == "Let" and "init" in x and x["pat"]["k"] == "Bind" and t.contains(o["body"], x)
                and any(y["k"] == "Call" and short(y.get("callee", "")) == "with_seed" for y in hirq.walk(x["init"]))]
    writes = [x for x in user_nodes(fn) if x["k"] == "MethodCall" and x["name"] == "write_u64" and t.contains(o["body"], x)]
    n += 1
    CH = seedlets[0]["pat"]["name"] if len(seedlets) == 1 else None
    if CH and len(writes) == 1 and nf.nf(writes[0]["recv"]) == CH and hir_dominates(t, seedlets[0], writes[0]) and \
            nf.nf(nf.strip(seedlets[0]["init"])["args"][0], True, res=R) == "self.wyhash_seed":
        ctx.ok("MUSTPASS", fid, "combining hasher created per position from self.wyhash_seed", hirq.loc(seedlets[0]))
    else:
        ctx.violation("MUSTPASS", fid, "combining hasher", hirq.loc(o["loop"]), "expected one WyHash::with_seed(self.wyhash_seed) per position dominating one write_u64 on it; found %d / %d" % (len(seedlets), len(writes)))
    if writes and read_nf:
        w = writes[0]
        src = nf.nf(w["args"][0], True, res=R)
        hb = [x for (x, f, i) in writes_to_self(fn, "hashbuffer")]
        didx = "std::convert::TryFrom::try_from(%s).unwrap()" % read_nf
        want_rhs = {"std::default::Default::default().hash_one(%s[%s])" % (DATA, didx), "std::hash::BuildHasherDefault::<H>::default().hash_one(%s[%s])" % (DATA, didx)}
        okh = src.startswith("self.hashbuffer[") and len(hb) == 1 and nf.nf(hb[0]["l"], True, res=R) == src and hir_dominates(t, hb[0], w) \
            and (nf.nf(hb[0]["r"], True, res=R) in want_rhs or nf.nf(hb[0]["r"], True, res=R).replace("core::convert", "std::convert") in want_rhs)
        n += 1
        if okh:
            ctx.ok("MUSTPASS", fid, "write_u64(hash_one(&data[indices[start + j]])) for each selected index", hirq.loc(w))
        else:
            ctx.violation("MUSTPASS", fid, "hashed element", hirq.loc(w), "the value fed to the combining hasher is `%s` <- `%s`; expected hash_one(&%s[self.indices[position*l + j]]) via hashbuffer[j]"
                          % (nf.nf(w["args"][0], True), nf.nf(hb[0]["r"], True)[:80] if hb else "?", DATA))
        conds = nf.all_conditions(t, w, stop=o["loop"], res=R)
        extra = [c for c in conds if c != ("cmp", didx, "<", "%s.len()" % DATA)]
        if extra:
            ctx.violation("MUSTPASS", fid, "conditional hashing", hirq.loc(w), "an element is only hashed when %s" % nf.all_conditions(t, w, stop=o["loop"]))
    n += 1
    body = fn["hir"]
    RES = nf.nf(body["expr"]) if "expr" in body else None
    pushes = [x for x in user_nodes(fn) if x["k"] == "MethodCall" and x["name"] == "push" and nf.nf(x["recv"]) == RES]
    if len(pushes) == 1 and t.contains(o["body"], pushes[0]) and not nf.all_conditions(t, pushes[0], stop=o["loop"]) and len(t.enclosing_loops(pushes[0])) == 1 \
            and CH and nf.nf(pushes[0]["args"][0], True) == "%s.finish()" % CH and writes and _before(fn, writes[0], pushes[0]):
        ctx.ok("MUSTPASS", fid, "one unconditional push of combine_hasher.finish() per position, after the hashing loop", hirq.loc(pushes[0]))
    else:
        ctx.violation("MUSTPASS", fid, "result push", hirq.loc(o["loop"]), "expected exactly one unconditional push of the combining hasher's finish() onto the returned vector per position, after the hashing loop")
    return n


def resetbefore(ctx, facts):
    from . import C13
    C13.require_verified_reset(ctx, facts, [C13.FY], "RESETBEFORE")
    fid = POM + "hash_set"
    fn = facts.fn(fid)
    t = tree_of(fn)
    resets = self_method_calls(fn, "permut_generator", ["reset"])
    nexts = self_method_calls(fn, "permut_generator", ["next"])
    if not nexts:
        ctx.violation("RESETBEFORE", fid, "no slot draw", hirq.loc(fn), "permut_generator.next is never called")
    fl = for_loops(fn)
    for nx in nexts:
        per_elem = [f for f in fl if t.contains(f["body"], nx)]
        good = [r for r in resets if hir_dominates(t, r, nx) and per_elem and t.contains(per_elem[-1]["body"], r)]
        if good:
            ctx.ok("RESETBEFORE", fid, "permut_generator.reset() precedes next() in every iteration of the per-element loop", hirq.loc(nx))
        else:
            ctx.violation("RESETBEFORE", fid, "next without per-element reset", hirq.loc(nx),
                          "permut_generator.next() is not dominated by a full permut_generator.reset() inside the same per-element iteration: the slots offered to a pair would depend on the pairs processed before it")


def run(ctx, facts):
    for k, v in RULES.items():
        ctx.rule(k, v)
    ctx.extra["explanation"] = (
        "Structural clauses of C11: legitimacy of every exit of the race loop of hash_set, provenance of the per-pair seed and of the "
        "values/indices stored, sort-before-hash and per-position combination in create_signature, per-element permutation reset.")
    ctx.not_decided[:] = ["that the selected pairs are the l smallest as a value-level fact (array invariant of the insertion sort)"]
    e = exit_rule(ctx, facts)
    ctx.floor("C11 race loop exits", e, 2)
    s = seed_rule(ctx, facts)
    ctx.floor("C11 seeding sites", s, 1)
    absorb_rule(ctx, facts)
    finish_rule(ctx, facts)
    lenguard_rule(ctx, facts)
    occurrence_rule(ctx, facts)
    st = store_rules(ctx, facts)
    ctx.floor("C11 store writes", st, 3)
    store_track(ctx, facts)
    sg = signature_rules(ctx, facts)
    ctx.floor("C11 create_signature instances", sg, 4)
    resetbefore(ctx, facts)
    # the race value of a pair must not depend on what the registers answered to its earlier draws: the draw counter that
    # indexes the spacing table advances once per draw, unconditionally
    from . import C01, C13
    ctx.rule("BETAS", "the race adds self.g[counter] * draw and advances the counter exactly once per draw, whatever the store answered: "
                      "the race values of a pair depend on its generator only")
    C01.betas_use(ctx, facts, [(POM + "hash_set", "g")])
    # histories: a second hash_set on the same instance starts from nothing the first one left
    ctx.rule("RESET-prefix", C13.RULES["RESET-prefix"])
    C13.require_reset_prefix(ctx, facts)
    from . import C02
    MT = "maxvaluetrack::MaxValueTracker::<V>::"
    from . import C15 as _C15
    _C15.accessor_shapes(ctx, facts, names=("get_max_value", "is_update_possible"))
