"""C06 — SetSketch cardinality estimate: registers never decrease; the two estimators are the same expression."""
from .. import hirq, nf, ratfn
from ..rulelib import user_nodes, tree_of, writes_to_self, self_method_calls, def_exprs, short
from . import C04, C05

SS = "setsketcher::SetSketcher::<I, T, H>::"
MLE = "setsketcher::MleJaccard::"
ALIAS = {"_b": "b"}

RULES = {
    "GUARD": "k_vec is only written in sketch under `k > k_vec[i]` with k (or its clamp): registers never decrease when an item is added",
    "MERGE-b": "merge's only register effect is the element-wise max: registers never decrease when a sketch is merged in",
    "WRITERS": "k_vec is written nowhere else outside new/default/reinit",
    "MERGE-a": C05.RULES["MERGE-a"] + " (the estimate of a merged sketch is the estimate of the union only for equal parameters)",
    "MERGE-c": C05.RULES["MERGE-c"],
    "LOWER": C05.RULES["LOWER"] + " (a stale bound makes sketch discard valid register updates: the estimate then undercounts)",
    "REINIT": "SetSketcher::reinit re-establishes every live mutated field with the constructor's value (RESET analysis of C13): the "
              "estimate of a reused sketcher is the estimate of a new one",
    "FORMULA": "both estimators compute m(1-1/b) / (a ln(b) SUM_i b^(-K_i)) — decided as an equality of rational functions over the fields "
               "and the register sum (pmh/ratfn.py), the summed term being exp(-K ln b) or b.powf(-K) — and get_cardinal_stats advertises "
               "sqrt(((b+1)/(b-1) ln b - 1)/m) as relative standard deviation",
    "SIB": "SetSketcher::get_cardinal_stats().0 and MleJaccard::get_cardinal_estimate have the same normal form "
           "m*(1-1/b) / (a*lnb*SUM_c exp(-c*ln_1p(b-1))) (fold(0,|acc,c| acc+f(c)) == map(f).sum(); field alias _b == b)",
}


def _sum_form(e):
    """(container nf, term nf with the element named `c`) for fold(0, |acc,x| acc + f(x)) or map(|x| f(x)).sum()"""
    e = nf.strip(e)
    if e["k"] != "MethodCall":
        return None
    if e["name"] == "fold" and len(e["args"]) == 2 and e["args"][1]["k"] == "Closure":
        init = nf.nf(e["args"][0])
        cl = e["args"][1]
        if init not in ("0.0", "0") or len(cl["params"]) != 2:
            return None
        acc, x = hirq.show_pat(cl["params"][0]), hirq.show_pat(cl["params"][1])
        body = nf.strip(cl["body"])
        if body["k"] != "Binary" or body["op"] != "+":
            return None
        l, r = body["l"], body["r"]
        if nf.nf(l) == acc:
            term = r
        elif nf.nf(r) == acc:
            term = l
        else:
            return None
        return (_container(e["recv"]), _rename(nf.nf(term, alias=ALIAS), x), term, x)
    if e["name"] == "sum" and not e["args"]:
        m = nf.strip(e["recv"])
        if m["k"] == "MethodCall" and m["name"] == "map" and len(m["args"]) == 1 and m["args"][0]["k"] == "Closure":
            cl = m["args"][0]
            x = hirq.show_pat(cl["params"][0])
            return (_container(m["recv"]), _rename(nf.nf(cl["body"], alias=ALIAS), x), cl["body"], x)
    return None


def _loop_sum_form(fn, acc, ds):
    """`let mut acc = 0.0; for x in REGISTERS.iter() { [immutable lets;] acc = acc + f(x) | acc += f(x) }` — the same sum in the
    same order as fold(0.0, |acc, x| acc + f(x))"""
    from ..rulelib import for_loops, resolver_of, loop_exits
    t = tree_of(fn)
    R = resolver_of(fn)
    if nf.nf(ds[0]) not in ("0.0", "0"):
        return None
    upd = [n for n in user_nodes(fn) if n["k"] in ("Assign", "AssignOp") and nf.nf(n["l"]) == acc]
    if len(upd) != 1:
        return None
    u = upd[0]
    fls = [f for f in for_loops(fn) if t.contains(f["body"], u)]
    if len(fls) != 1 or nf.all_conditions(t, u, stop=fls[0]["loop"]) or [k for (k, n_) in loop_exits(fn, fls[0]["loop"]) if k != "iterator-exhausted"]:
        return None
    f = fls[0]
    # nothing else happens in the loop body: immutable lets and the accumulation
    body = f["body"]
    others = [st for st in (body["stmts"] + ([body["expr"]] if "expr" in body else [])) if st is not u and not hirq.in_log_macro(st)
              and not (st["k"] == "Let" and st["pat"].get("k") == "Bind" and "Mut" not in st["pat"].get("mode", ""))]
    if others or f["pat"].get("k") != "Bind":
        return None
    x = f["pat"]["name"]
    if u["k"] == "AssignOp" and u["op"] == "+=":
        term = u["r"]
    elif u["k"] == "Assign":
        r = nf.strip(u["r"])
        if r["k"] != "Binary" or r["op"] != "+":
            return None
        if nf.nf(r["l"]) == acc:
            term = r["r"]
        elif nf.nf(r["r"]) == acc:
            term = r["l"]
        else:
            return None
    else:
        return None
    return (_container(f["iter"]), _rename(nf.nf(term, alias=ALIAS, res=R), x), term, x)


def _container(e):
    e = nf.strip(e)
    while e["k"] == "MethodCall" and e["name"] in ("iter", "into_iter", "par_iter", "into_par_iter") and not e["args"]:
        e = nf.strip(e["recv"])
    return "REGISTERS" if nf.nf(e) in ("self.k_vec", "sketch") else nf.nf(e)


def _rename(s, x):
    import re
    return re.sub(r"\b%s\b" % re.escape(x), "c", s)


LNB_FORMS = (r"^self\.b\.ln\(\)$", r"^\(self\.b - 1(\.0)?\)\.ln_1p\(\)$", r"^\(-1(\.0)? \+ self\.b\)\.ln_1p\(\)$")


def _canon_lnb(r):
    """ln(b) spelled `self.b.ln()` or `(self.b - 1.).ln_1p()` is the field lnb (the constructors define it so: CTOR-SIB / LNB)"""
    import re
    for a in list(ratfn.atoms_of(r)):
        if any(re.match(f_, a) for f_ in LNB_FORMS):
            r = ratfn.substitute(r, a, (ratfn.p_atom("self.lnb"), ratfn.ONE))
    return r


CARD = "self.m * (1 - 1/self.b) / (self.a * self.lnb * SUM)"
RSD2 = "((self.b + 1) / (self.b - 1) * self.lnb - 1) / self.m"


def formula_rule(ctx, fid, fn, rf, sf, R):
    """FORMULA: the estimate is m(1-1/b) / (a ln(b) SUM_i b^(-K_i)) as a rational function of the fields and the register sum,
    and the summed term is b^(-K): exp(-K ln b) or b.powf(-K)"""
    early = [x for x in user_nodes(fn) if x["k"] == "Ret" and not hirq.from_expansion(x)]
    if early:
        ctx.violation("FORMULA", fid, "estimate bypassed", hirq.loc(early[0]),
                      "`return %s` (when %s) hands back something else than the closed form: the estimate must be the formula for every state of the registers, "
                      "however they were reached (sketch, merge, reinit)" % (nf.nf(early[0]["e"], True)[:50] if "e" in early[0] else "", nf.control_facts(tree_of(fn), early[0])[:1]))
    want = ratfn.parse(CARD)
    if ratfn.equal(rf, want):
        ctx.ok("FORMULA", fid, "estimate == %s (equality of rational functions; found %s)" % (CARD, ratfn.show(rf)[:90]), hirq.loc(fn))
    else:
        ctx.violation("FORMULA", fid, "closed form", hirq.loc(fn),
                      "the estimate is `%s`, expected %s (Ertl 2021, eq. 12; the statement's n_hat)" % (ratfn.show(rf)[:140], CARD))
    term, x = nf.strip_casts(sf[2]), sf[3]
    for _ in range(6):
        if term["k"] == "Path" and "local" in term["res"] and R.lookup(term["res"]["local"], term) is not None:
            term = nf.strip_casts(R.lookup(term["res"]["local"], term))
    good = False
    shown = sf[1]
    cK = (ratfn.p_atom("K"), ratfn.ONE)

    def rk(e):
        r_ = ratfn.rat(e, R, alias=ALIAS)
        import re
        for a in list(ratfn.atoms_of(r_)):
            if re.match(r"^%s\.to_f64\(\)\.unwrap\(\)$" % re.escape(x), a) or a == x:
                r_ = ratfn.substitute(r_, a, cK)
        return _canon_lnb(r_)
    if term["k"] == "MethodCall" and term["name"] == "exp" and not term["args"]:
        good = ratfn.equal(rk(term["recv"]), ratfn.parse("0 - K * self.lnb"))
    elif term["k"] == "MethodCall" and term["name"] in ("powf", "powi") and len(term["args"]) == 1:
        good = nf.nf(term["recv"], True, alias=ALIAS, res=R) == "self.b" and ratfn.equal(rk(term["args"][0]), ratfn.parse("0 - K"))
    if good:
        ctx.ok("FORMULA", fid, "summed term == b^(-K): %s" % shown[:80], hirq.loc(term))
        return "b^(-K)"
    else:
        ctx.violation("FORMULA", fid, "summed term", hirq.loc(term), "the term summed over the registers is `%s`, expected exp(-K*ln b) (or b.powf(-K))" % shown[:120])


def rsd_rule(ctx, facts):
    """the advertised relative standard deviation: sqrt(((b+1)/(b-1) ln b - 1)/m)"""
    from ..rulelib import resolver_of
    fid = SS + "get_cardinal_stats"
    fn = facts.fn(fid)
    R = resolver_of(fn)
    body = fn["hir"]
    tail = nf.strip(body["expr"]) if "expr" in body else None
    if tail is None or tail["k"] != "Tup" or len(tail["es"]) != 2:
        ctx.violation("FORMULA", fid, "cannot-establish: rsd", hirq.loc(fn), "get_cardinal_stats does not end in a 2-tuple")
        return
    e = nf.strip_casts(tail["es"][1])
    for _ in range(6):
        if e["k"] == "Path" and "local" in e["res"]:
            d = R.lookup(e["res"]["local"], e)
            if d is None:
                ds = def_exprs(fn, e["res"]["name"])
                d = ds[0] if len(ds) == 1 else None
            if d is None:
                break
            e = nf.strip_casts(d)
        else:
            break
    if e["k"] == "MethodCall" and e["name"] == "sqrt" and not e["args"]:
        r_ = _canon_lnb(ratfn.rat(e["recv"], R, alias=ALIAS))
        if ratfn.equal(r_, ratfn.parse(RSD2)):
            ctx.ok("FORMULA", fid, "relative standard deviation == sqrt(%s)" % RSD2, hirq.loc(e))
        else:
            ctx.violation("FORMULA", fid, "relative standard deviation", hirq.loc(e),
                          "the advertised relative standard deviation is sqrt(`%s`), expected sqrt(%s)" % (ratfn.show(r_)[:120], RSD2))
    else:
        ctx.violation("FORMULA", fid, "cannot-establish: rsd", hirq.loc(fn), "the second component `%s` is not a `.sqrt()`" % nf.nf(e, True)[:80])


def lnb_rule(ctx, facts):
    """LNB: every struct literal with a field `lnb` defines it as ln of the value given to the field b/_b of the same literal"""
    import re
    from ..rulelib import resolver_of
    ctx.rule("LNB", "every constructor of SetSketcher / MleJaccard stores lnb = ln(b) for the b it stores: `(b - 1.).ln_1p()` or `b.ln()` of the "
                    "same expression as the field b/_b of the same struct literal (FORMULA reads ln b from that field)")
    n = 0
    for fid, fn in facts.fns.items():
        if "hir" not in fn or not fid.startswith("setsketcher::") and "setsketcher::" not in fid:
            continue
        for x in user_nodes(fn):
            if x["k"] != "Struct" or not any(f["name"] == "lnb" for f in x.get("fields", [])):
                continue
            R = resolver_of(fn)
            f = {y["name"]: y["e"] for y in x["fields"]}
            bexp = f.get("_b", f.get("b"))
            n += 1
            if bexp is None:
                ctx.violation("LNB", fid, "no b field", hirq.loc(x), "struct literal with lnb but no b/_b field")
                continue
            b_ = nf.nf(bexp, True, res=R)
            l_ = nf.nf(f["lnb"], True, res=R)
            forms = ["(%s - 1.0).ln_1p()" % b_, "(%s - 1).ln_1p()" % b_, "(-1.0 + %s).ln_1p()" % b_, "%s.ln()" % b_]
            if l_ in forms:
                ctx.ok("LNB", fid, "lnb = %s with b = %s" % (l_[:60], b_[:40]), hirq.loc(x))
            else:
                ctx.violation("LNB", fid, "lnb definition", hirq.loc(x), "lnb is `%s` while b is `%s`: expected (b - 1.).ln_1p() or b.ln() of the same b" % (l_[:80], b_[:60]))
    ctx.floor("C06 struct literals defining lnb", n, 3)


def sib(ctx, facts):
    a_id, b_id = SS + "get_cardinal_stats", MLE + "get_cardinal_estimate"
    fa, fb = facts.fn(a_id), facts.fn(b_id)
    out = {}
    for fid, fn in ((a_id, fa), (b_id, fb)):
        body = fn["hir"]
        tail = nf.strip(body["expr"]) if "expr" in body else None
        if tail is not None and tail["k"] == "Tup":
            tail = nf.strip(tail["es"][0])
        if tail is None:
            ctx.violation("SIB", fid, "cannot-establish", hirq.loc(fn), "the function has no tail expression")
            return
        if tail["k"] == "Path" and "local" in tail["res"]:
            card = def_exprs(fn, tail["res"]["name"])
            if len(card) != 1:
                ctx.violation("SIB", fid, "cannot-establish", hirq.loc(fn), "the estimate has %d definitions" % len(card))
                return
        else:
            card = [tail]          # the closed form is returned directly
        cnf = nf.nf(card[0], casts=True, alias=ALIAS)
        # the sum variable
        sums = {}
        work, seen = [card[0]], set()
        while work:
            e_ = work.pop()
            for x in hirq.walk(e_):
                if x["k"] == "Path" and "local" in x["res"] and x["res"]["name"] not in seen:
                    seen.add(x["res"]["name"])
                    ds = def_exprs(fn, x["res"]["name"])
                    sf = None
                    if len(ds) == 1:
                        sf = _sum_form(ds[0])
                        if not sf and len(seen) < 12:
                            work.append(ds[0])       # a named part of the closed form (`let denominator = a * lnb * sumbk`)
                    elif len(ds) == 2:
                        sf = _loop_sum_form(fn, x["res"]["name"], ds)
                    if sf:
                        sums[x["res"]["name"]] = sf
        if len(sums) != 1:
            ctx.violation("SIB", fid, "cannot-establish", hirq.loc(fn), "expected exactly one register sum in the estimate, found %d" % len(sums))
            return
        name, sf = list(sums.items())[0]
        import re
        from ..rulelib import resolver_of
        R = resolver_of(fn)
        rf = _canon_lnb(ratfn.rat(card[0], R, {name: (ratfn.p_atom("SUM"), ratfn.ONE)}, alias=ALIAS))
        canon = formula_rule(ctx, fid, fn, rf, sf, R)
        out[fid] = (re.sub(r"\b%s\b" % name, "SUM", cnf), (sf[0], canon or sf[1]), rf)
    (ca, sa, ra), (cb, sb, rb) = out[a_id], out[b_id]
    if ratfn.equal(ra, rb):
        ca = cb = ratfn.show(ra)
    if ca == cb and sa == sb:
        ctx.ok("SIB", a_id, "estimate = %s with SUM over %s of %s — identical in both estimators" % (ca, sa[0], sa[1]), hirq.loc(fa))
        ctx.ok("SIB", b_id, "same normal form as SetSketcher::get_cardinal_stats", hirq.loc(fb))
    else:
        what = "the closed form" if ca != cb else "the summed term"
        x, y = (ca, cb) if ca != cb else (str(sa), str(sb))
        ctx.violation("SIB", b_id, "estimators disagree", hirq.loc(fb),
                      "%s differs: get_cardinal_stats has `%s`, get_cardinal_estimate has `%s`" % (what, x[:120], y[:120]))


def run(ctx, facts):
    for k, v in RULES.items():
        ctx.rule(k, v)
    ctx.extra["explanation"] = (
        "Structural clauses of C06: (a) SetSketch registers never decrease (guarded writes in sketch, element-wise max in merge, "
        "no other writer), the precondition of a monotone estimate; (b) the sketcher's own estimate and the parallel estimator on "
        "a raw register slice are the same expression (sibling normal-form comparison).")
    ctx.not_decided[:] = ["bias of order 1/m and the observed spread (the advertised formula is checked: FORMULA)", "rounding of the rayon reduction order"]
    C04._setsketch(ctx, facts)
    C05.merge_rules(ctx, facts)
    C05.lower_rules(ctx, facts)
    from . import C13
    C13.require_verified_reset(ctx, facts, [C13.SS], "REINIT")
    # WRITERS
    okw = ["new", "default", "reinit", "sketch", "merge"]
    n = 0
    for fid, fn in facts.fns.items():
        if "hir" not in fn or "SetSketcher" not in fid:
            continue
        ws = writes_to_self(fn, "k_vec") + [(m, "k_vec", None) for m in self_method_calls(fn, "k_vec") if m.get("recv_ty", "").startswith("&mut ")]
        n += len(ws)
        if short(fid) in okw:
            continue
        from .. import inline
        if inline.absorbed(facts, fid):
            continue     # a new private helper whose every call was inlined: its writes are judged in its callers
        for (w, _f, _i) in ws:
            ctx.violation("WRITERS", fid, "k_vec written", hirq.loc(w), "%s writes the registers: `%s`" % (fid, hirq.show(w)[:60]))
    ctx.ok("WRITERS", "SetSketcher", "k_vec written only in %s (%d write sites)" % (okw, n), "")
    sib(ctx, facts)
    rsd_rule(ctx, facts)
    lnb_rule(ctx, facts)
    from . import C07
    C07.ctor_sib(ctx, facts)
    C04.regvalue_rule(ctx, facts)
    C04.spacing_rule(ctx, facts)
    ctx.rule("RESETBEFORE", C04.RULES["RESETBEFORE"] + " (the same item offered twice must visit the slots in the same order, or a repeated item raises registers the first occurrence did not and the estimate counts repetitions)")
    C13.require_verified_reset(ctx, facts, [C13.FY], "RESETBEFORE")
    C04._resetbefore(ctx, facts, C04.SS + "sketch")
    ctx.rule("EXIT", C04.RULES["EXIT"])
    C04._exit_setsketch(ctx, facts)
    ctx.rule("SKIP", C04.RULES["SKIP"])
    C04.skip_rule(ctx, facts, C04.SS + "sketch")
