"""C09 — densification only copies populated bins, is idempotent, and terminates (structural clauses)."""
import re

from .. import hirq, nf, slicer, panic
from ..rulelib import (def_exprs, resolver_of, tree_of, slicer_of, user_nodes, writes_to_self, self_method_calls, hir_dominates, check_seeds,
                       check_roots, short)
from . import C04

OD = "densminhash::OptDensMinHash::<F, D, H>::"
RD = "densminhash::RevOptDensMinHash::<F, D, H>::"

RULES = {
    "DENS-target": "every write to values[t] / hsketch[t] / init[t] inside densify is control-dependent on !init[t] for the same t "
                   "(bins that received an item are untouched)",
    "DENS-source": "every value copied, values[s] / hsketch[s], is read under init[s] for the same s (only populated bins are copied)",
    "PAIR": "values[t] = values[s] and hsketch[t] = hsketch[s] occur together with the same (t, s); in sketch the value and the hash "
            "are written together under the same guard and the value's only data root is the item hash",
    "DENS-SEED": "the generator that searches a donor for an empty bin is created inside the loop over the bins and seeded from the bin "
                 "index (with the pass number for the reverse variant): the probe sequence of a bin is keyed by the bin alone",
    "BOOKKEEPING": "every init[x] = true is together with nb_empty -= 1 under !init[x]; nb_empty and init are written nowhere else "
                   "outside new/reinit",
    "IDEMPOTENT": "end_sketch and sketch_slice call the same finisher densify exactly once, under no condition other than "
                  "nb_empty != 0 / > 0, and have no other effect; densify writes only under !init[t] (DENS-target), so a second "
                  "call finds nothing to write",
    "EMPTY": "every search loop of densify is dominated by a test that some bin is populated whose failing branch returns Err "
             "(reporting failure instead of hanging on an empty stream)",
    "U32VIEW": "get_hsketch_u32 is a function of self.values and a literal seed only, and the two structs use the same expression",
    "PANIC": "end_sketch / densify have no panic edge other than the failure report, the final consistency assertion and "
             "individually argued arithmetic/index edges",
    "REINIT": "reinit re-establishes every field the sketching/finishing path mutates with the constructor's value (interleavings with "
              "reinit: RESET rule of C13 on the two densified sketchers)",
    "DELEG": "sketch_slice = per-element sketch + densify when nb_empty > 0 (shared with C04)",
    "SEED": "densification generators are keyed by bin index, sketch size, pass number and constants only (shared with C04)",
}

POPULATED_TESTS = {  # normal forms of "some bin is populated"
    "self.init.iter().any(|b| b)", "self.init.iter().any(|&b| b)", "self.init.contains(true)", "self.init.iter().any(|b| (b == true))",
}


def _idx(n, R=None):
    return nf.nf(n, True, res=R)


def break_value_facts(fn):
    """facts about locals defined as `let x = loop { .. break v .. }`: a condition that holds at every `break v` of that loop
    holds for x (with v replaced by x)"""
    t = tree_of(fn)
    out = []
    for st in user_nodes(fn):
        if st["k"] == "Let" and st["pat"]["k"] == "Bind" and "init" in st:
            lp = nf.strip(st["init"])
            if lp["k"] != "Loop":
                continue
            brs = [b for b in t.nodes if b["k"] == "Break" and b.get("target") == lp["id"] and "e" in b]
            if not brs:
                continue
            common = None
            for b in brs:
                v = nf.nf(b["e"], True)
                fs = set()
                for it in nf.all_conditions(t, b, stop=lp):
                    if it[0] == "truth":
                        fs.add(("truth", re.sub(r"\b%s\b" % re.escape(v), st["pat"]["name"], it[1]), it[2]))
                common = fs if common is None else (common & fs)
            out.extend(sorted(common or []))
    return out


def site_facts(fn, node):
    """conditions enclosing the node, facts established by earlier diverging ifs (early `continue`), and facts carried by
    break-with-value loops"""
    t = tree_of(fn)
    R = resolver_of(fn)
    return nf.all_conditions(t, node, res=R) + nf.early_facts(t, node, res=R) + break_value_facts(fn)


def dens_rules(ctx, facts, prefix):
    fid = prefix + "densify"
    fn = facts.fn(fid)
    t = tree_of(fn)
    R = resolver_of(fn)
    ws = writes_to_self(fn)
    n_inst = 0
    # targets
    for (w, f, idx) in ws:
        if f not in ("values", "hsketch", "init"):
            continue
        n_inst += 1
        tt = _idx(idx[0], R)
        conds = site_facts(fn, w)
        if ("truth", "self.init[%s]" % tt, False) in conds:
            ctx.ok("DENS-target", fid, "%s[%s] written under !init[%s]" % (f, tt, tt), hirq.loc(w))
        else:
            ctx.violation("DENS-target", fid, "%s write" % f, hirq.loc(w),
                          "`%s` is not control-dependent on `!self.init[%s]`: a bin that received an item could be overwritten (conditions: %s)" % (nf.nf(w)[:60], tt, conds[:3]))
    # sources and pairing
    copies = [(w, f, idx) for (w, f, idx) in ws if f in ("values", "hsketch")]
    for (w, f, idx) in copies:
        n_inst += 1
        tt = _idx(idx[0], R)
        src = nf.strip(w["r"])
        kind, key, proj, sidx = slicer.base_place(src)
        conds = site_facts(fn, w)
        if not (src["k"] == "Index" and kind == "self" and key == f and len(sidx) == 1):
            ctx.violation("DENS-source", fid, "%s source" % f, hirq.loc(w), "`%s` does not copy %s from another bin of the same array" % (nf.nf(w)[:60], f))
            continue
        ss = _idx(sidx[0], R)
        if ("truth", "self.init[%s]" % ss, True) in conds:
            ctx.ok("DENS-source", fid, "%s[%s] read under init[%s]" % (f, ss, ss), hirq.loc(w))
        else:
            ctx.violation("DENS-source", fid, "%s source not populated" % f, hirq.loc(w),
                          "`%s` reads bin %s without being control-dependent on `self.init[%s]`: an unpopulated bin (placeholder) could be copied; conditions: %s" % (nf.nf(w)[:60], ss, ss, conds[:3]))
        blk = t.parent.get(id(w))
        other = "hsketch" if f == "values" else "values"
        mates = [x for (x, ff, ii) in copies if ff == other and t.parent.get(id(x)) is blk and _idx(ii[0], R) == tt
                 and nf.nf(x["r"], True, res=R) == "self.%s[%s]" % (other, ss)]
        if mates:
            ctx.ok("PAIR", fid, "%s[%s] = %s[%s] together with %s[%s] = %s[%s]" % (f, tt, f, ss, other, tt, other, ss), hirq.loc(w))
        else:
            ctx.violation("PAIR", fid, "%s copied alone" % f, hirq.loc(w), "`%s` has no matching `self.%s[%s] = self.%s[%s]` in the same block: value and hash views would disagree" % (nf.nf(w)[:60], other, tt, other, ss))
    return n_inst


def dens_seed(ctx, facts, prefix):
    """DENS-SEED: the generator that searches a donor for empty bin k is created for that bin (inside the loop over the bins) and
    seeded from k: the probe sequence of a bin is keyed by the bin alone, so two sketchers fill their common empty bins from
    the same places whatever else differs"""
    from ..rulelib import seed_sites, for_loops
    fid = prefix + "densify"
    fn = facts.fn(fid)
    t = tree_of(fn)
    R = resolver_of(fn)
    n = 0
    fls = for_loops(fn)
    for site in seed_sites(fn):
        n += 1
        enc = [f for f in fls if t.contains(f["body"], site)]
        # the innermost enclosing `for` over the bins
        bins = [f for f in enc if re.match(r"^std::ops::Range\{start:0, end:(self\.hsketch\.len\(\)|self\.values\.len\(\)|self\.init\.len\(\))\}$", nf.nf(f["iter"], True, res=R))]
        if not bins:
            ctx.violation("DENS-SEED", fid, "donor generator shared by the bins", hirq.loc(site),
                          "the generator of the donor search is created outside the loop over the bins: the probe sequence of an empty bin then depends on how many "
                          "draws the bins before it consumed, i.e. on the set")
            continue
        var = bins[-1]["pat"]
        vids = {b["id"] for b in ([var] if var.get("k") == "Bind" else [])}
        used = any(y["k"] == "Path" and y.get("res", {}).get("local") in vids for a in site["args"] for y in hirq.walk(a))
        if not used:
            # through immutable locals
            s_ = nf.nf(site["args"][0], True, res=R) if site["args"] else ""
            used = var.get("k") == "Bind" and re.search(r"\b%s\b" % re.escape(var["name"]), s_) is not None
        if used:
            ctx.ok("DENS-SEED", fid, "donor generator created per bin and seeded from the bin index `%s`" % hirq.show_pat(var), hirq.loc(site))
        else:
            ctx.violation("DENS-SEED", fid, "donor seed does not depend on the bin", hirq.loc(site),
                          "the generator of the donor search is seeded by `%s`, which does not mention the bin index `%s`" % (nf.nf(site["args"][0], True)[:60] if site["args"] else "", hirq.show_pat(var)))
    return n


def bookkeeping(ctx, facts, prefix):
    n = 0
    for name in ("sketch", "densify"):
        fid = prefix + name
        fn = facts.fn(fid)
        t = tree_of(fn)
        R = resolver_of(fn)
        ws = writes_to_self(fn)
        inits = [(w, i) for (w, f, i) in ws if f == "init"]
        decs = [w for (w, f, i) in ws if f == "nb_empty"]
        used = set()
        for (w, idx) in inits:
            n += 1
            x = _idx(idx[0], R)
            blk = t.parent.get(id(w))
            conds = site_facts(fn, w)
            mate = [d for d in decs if t.parent.get(id(d)) is blk and d["k"] == "AssignOp" and d["op"] == "-=" and nf.nf(d["r"]) == "1"]
            if nf.nf(w["r"]) == "true" and mate and ("truth", "self.init[%s]" % x, False) in conds:
                used.add(id(mate[0]))
                ctx.ok("BOOKKEEPING", fid, "init[%s] = true with nb_empty -= 1 under !init[%s]" % (x, x), hirq.loc(w))
            else:
                ctx.violation("BOOKKEEPING", fid, "init write", hirq.loc(w), "`%s` is not `init[x] = true` together with `nb_empty -= 1` under `!init[x]`" % nf.nf(w)[:50])
        for d in decs:
            if id(d) not in used:
                ctx.violation("BOOKKEEPING", fid, "nb_empty write", hirq.loc(d), "`%s` is not paired with an `init[x] = true` under `!init[x]`" % nf.nf(d)[:50])
    # other writers
    for fid, fn in facts.fns.items():
        if "hir" not in fn or not fid.startswith(prefix) or short(fid) in ("new", "reinit", "sketch", "densify"):
            continue
        from .. import inline
        if inline.absorbed(facts, fid):
            continue     # a new private helper whose every call was inlined: its writes are judged in its callers
        for (w, f, i) in writes_to_self(fn):
            if f in ("init", "nb_empty", "values", "hsketch"):
                ctx.violation("BOOKKEEPING", fid, "%s written outside sketch/densify/new/reinit" % f, hirq.loc(w), "`%s`" % nf.nf(w)[:60])
    return n


def idempotent(ctx, facts, prefix):
    fid = prefix + "end_sketch"
    fn = facts.fn(fid)
    t = tree_of(fn)
    calls = [n for n in user_nodes(fn) if n["k"] == "MethodCall" and n["name"] == "densify"]
    if len(calls) != 1:
        ctx.violation("IDEMPOTENT", fid, "densify calls", hirq.loc(fn), "expected exactly one call of densify, found %d" % len(calls))
        return
    c = calls[0]
    fs = nf.all_conditions(t, c) + nf.early_facts(t, c)
    other = [f for f in fs if f not in (("cmp", "0", "!=", "self.nb_empty"), ("cmp", "0", "<", "self.nb_empty"))]
    if t.enclosing_loops(c) or other:
        ctx.violation("IDEMPOTENT", fid, "finisher skipped", hirq.loc(c), "densify is only reached when %s: unfinished sketches could be left unfinished" % other[:3])
    else:
        # densify itself is a no-op when nb_empty == 0 (DENS-target: all writes under !init[t]), so the guard is optional
        ctx.ok("IDEMPOTENT", fid, "densify called once, under no condition other than nb_empty != 0 (facts: %s)" % fs[:2], hirq.loc(c))
    # the finisher's failure must be reported: its Result is asserted / unwrapped / propagated, not dropped
    report_checked(ctx, fn, fid, c)
    # no other effect
    others = [w for (w, f, i) in writes_to_self(fn)]
    if others:
        ctx.violation("IDEMPOTENT", fid, "extra effect", hirq.loc(others[0]), "end_sketch writes `%s`" % nf.nf(others[0])[:50])


def report_checked(ctx, fn, fid, call):
    """the Result of densify() is checked (assert!(res.is_ok()), unwrap/expect, `?`, or returned)"""
    t = tree_of(fn)
    par = t.parent.get(id(call))
    ok = None
    if par is not None and par["k"] == "MethodCall" and par["recv"] is call and par["name"] in ("unwrap", "expect"):
        ok = "unwrapped"
    elif par is not None and par["k"] == "Call" and short(par.get("callee", "")) == "branch":
        ok = "propagated with ?"
    elif par is not None and par["k"] in ("Ret",):
        ok = "returned"
    elif par is not None and par["k"] == "Let" and par["pat"]["k"] == "Bind":
        name = par["pat"]["name"]
        for x in t.nodes:
            if x["k"] == "If" and hirq.expn(x)[1] in ("macro:assert", "macro:debug_assert") and hirq.expn(x)[1] == "macro:assert" and "%s.is_ok()" % name in nf.nf(x["c"]):
                ok = "asserted with assert!(%s.is_ok())" % name
            if x["k"] == "MethodCall" and x["name"] in ("unwrap", "expect") and nf.nf(x["recv"]) == name:
                ok = "unwrapped"
            if x["k"] in ("Ret",) and "e" in x and nf.nf(x["e"]) == name:
                ok = "returned"
            if x["k"] == "Call" and short(x.get("callee", "")) == "branch" and x["args"] and nf.nf(x["args"][0]) == name:
                ok = "propagated with ?"
    if ok:
        ctx.ok("EMPTY", fid, "the finisher's Result is %s" % ok, hirq.loc(call))
    else:
        ctx.violation("EMPTY", fid, "finisher failure dropped", hirq.loc(call), "the Result of densify() is neither asserted, unwrapped, propagated nor returned: on an empty stream the failure is not reported and the sketch is left unfinished")


def empty_guard(ctx, facts, prefix):
    fid = prefix + "densify"
    fn = facts.fn(fid)
    t = tree_of(fn)
    loops = [n for n in t.nodes if n["k"] == "Loop" and not t.enclosing_loops(n) and not hirq.in_log_macro(n)]
    if not loops:
        ctx.violation("EMPTY", fid, "no loop", hirq.loc(fn), "densify has no loop")
        return 0
    n = 0
    for lp in loops:
        n += 1
        R = resolver_of(fn)
        fs = nf.early_facts(t, lp, res=R)

        def populated(f):
            """the fact says: some bin is populated — any(|b| b) holds, or all(|b| !b) does not (closure parameter named freely)"""
            if f[0] != "truth":
                return False
            if f[2] is True and (f[1] in POPULATED_TESTS or re.match(r"^self\.init\.iter\(\)\.any\(\|&?(\w+)\| \(?\1( == true)?\)?\)$", f[1])):
                return True
            return f[2] is False and bool(re.match(r"^self\.init\.iter\(\)\.all\(\|&?(\w+)\| \(?(!\1|\1 == false)\)?\)$", f[1]))
        ok = [f for f in fs if populated(f)]
        # the failing branch must return Err
        good = False
        if ok:
            body = fn["hir"]
            for st in body["stmts"]:
                if st["k"] == "If" and "e" not in st and nf.atoms(st["c"], False, res=R) == [ok[0]]:
                    tb = st["t"]
                    last = tb.get("expr") or (tb["stmts"][-1] if tb["stmts"] else None)
                    if last is not None and last["k"] == "Ret" and "e" in last and "Err" in hirq.show(last["e"])[:40]:
                        good = True
        if good:
            ctx.ok("EMPTY", fid, "search loop dominated by `if !(%s) { return Err }`" % ok[0][1], hirq.loc(lp))
        else:
            ctx.violation("EMPTY", fid, "no empty-stream guard", hirq.loc(lp),
                          "this loop searches/copies from populated bins but no dominating test establishes that some bin is populated with an Err return otherwise (facts: %s): on an empty stream it never terminates" % fs[:3])
    return n


def u32view(ctx, facts):
    forms = {}
    for prefix in (OD, RD):
        fid = prefix + "get_hsketch_u32"
        fn = facts.fn(fid)
        sites = [n for n in user_nodes(fn) if n["k"] == "Call" and short(n.get("callee", "")) == "murmur3_32"]
        if len(sites) != 1:
            ctx.violation("U32VIEW", fid, "murmur3 call", hirq.loc(fn), "expected one murmur3_32 call, found %d" % len(sites))
            continue
        sl = slicer_of(fn)
        s = sites[0]
        check_roots(ctx, "U32VIEW", fid, "hashed bytes", hirq.loc(s), sl.roots(s["args"][0]), ["self.values"], ["self.values"])
        seed = nf.strip(s["args"][1])
        if seed["k"] != "Lit":
            ctx.violation("U32VIEW", fid, "seed not a literal", hirq.loc(s), "the murmur3 seed is `%s`, expected a literal" % nf.nf(seed))
        body = fn["hir"]
        tail = body.get("expr")
        forms[fid] = nf.nf(tail) if tail is not None else ""
        # the returned value is the mapped collection
        roots = {slicer.show_root(r) for r in sl.roots(tail)} if tail is not None else set()
        if not any(r == "self.values" for r in roots) or any(r.startswith("self.") and r != "self.values" for r in roots):
            ctx.violation("U32VIEW", fid, "result roots", hirq.loc(fn), "the u32 view depends on %s, expected self.values and a literal only" % sorted(roots))
    if len(forms) == 2:
        a, b = list(forms.items())

        def sig_of(fid):
            """what the rehash of one stored value is made of: the byte conversion(s) applied to it and the literal seed — the
            same in both structs whatever the surrounding iteration idiom (map/collect, push loop, named temporaries)"""
            fn_ = facts.fn(fid)
            call = [n for n in user_nodes(fn_) if n["k"] == "Call" and short(n.get("callee", "")) == "murmur3_32"][0]
            convs, seen, work = [], set(), [call["args"][0]]
            while work:
                e_ = work.pop()
                for x in hirq.walk(e_):
                    if x["k"] == "MethodCall" and x["name"].startswith("to_") and x["name"].endswith("_bytes"):
                        convs.append(x["name"])
                    if x["k"] == "Path" and "local" in x["res"] and x["res"]["name"] not in seen:
                        seen.add(x["res"]["name"])
                        ds = def_exprs(fn_, x["res"]["name"])
                        if len(ds) == 1:
                            work.append(ds[0])
            return "murmur3_32(%s of a stored value, seed %s)" % (sorted(convs), nf.nf(call["args"][1]))
        da, db = sig_of(a[0]), sig_of(b[0])
        if da == db:
            ctx.ok("U32VIEW", b[0], "same expression in both structs: %s" % da[:80], hirq.loc(facts.fn(b[0])))
        else:
            ctx.violation("U32VIEW", b[0], "structs disagree", hirq.loc(facts.fn(b[0])), "OptDensMinHash uses `%s`, RevOptDensMinHash uses `%s`" % (da[:80], db[:80]))


PANIC_TABLE = [
    # (fn suffix, detail regex, class, reason)
    ("end_sketch", r'^call:panic:"assertion failed: res\.is_ok\(\)"$', "PRECONDITION", "the failure report on an empty stream"),
    ("densify", r"^call:panic:core::panicking::assert_failed$", "ARGUED", "assert_eq!(nb_empty, 0): follows from BOOKKEEPING (every fill decrements once) and the loop conditions"),
    ("densify", r"^call:Result::unwrap on rand_distr::Uniform::new$", "ARGUED", "Uniform::new(0, m) fails only for m = 0; sketch size >= 1 is the documented domain"),
    ("densify", r"^call:index:&(mut )?std::vec::Vec<(bool|u64|F)>$", "ARGUED", "indices are the loop variable of 0..m or a Uniform(0, m) sample with m = hsketch.len() = values.len() = init.len()"),
    ("densify", r"^assert:overflow:Add\(u64,u64\)$", "ARGUED", "k + constant / pass counters: bounded by the sketch size and the number of passes"),
    ("densify", r"^assert:overflow:Mul\(u64,u64\)$", "ARGUED", "(k+1)*m with k < m: below 2^64 for any allocatable sketch"),
    ("densify", r"^assert:overflow:Sub\(i64,i64\)$", "ARGUED", "nb_empty -= 1 under !init[x]: nb_empty counts the false entries of init, so it is >= 1 there"),
]


def panic_rules(ctx, facts, prefix):
    n = 0
    for name in ("end_sketch", "densify"):
        fid = prefix + name
        for e in panic.edges_of(facts, fid):
            if e["expn"][1] in hirq.LOG_MACROS:
                continue
            n += 1
            d = "%s:%s" % (e["kind"], e["detail"])
            row = next((r for r in PANIC_TABLE if r[0] == name and re.search(r[1], d)), None)
            if row:
                ctx.ok("PANIC", fid, "%s [%s: %s]" % (d[:70], row[2], row[3][:60]), e["where"])
            else:
                ctx.violation("PANIC", fid, d[:90], e["where"], "panic edge `%s` in the finishing path has no justification: finishing must terminate and report failure only for an empty stream" % d[:120])
    return n


def run(ctx, facts):
    for k, v in RULES.items():
        ctx.rule(k, v)
    ctx.extra["explanation"] = (
        "Structural clauses of C09 on both densified sketchers (sibling pair): target/source discipline of densify via "
        "control dependence on init[], paired copies, init/nb_empty bookkeeping, guarded finisher (idempotence), the empty-stream "
        "guard dominating the search loops, the u32 view as a function of the u64 view, the panic-edge inventory of the finishing "
        "path, and sketch_slice = per-item sketch + same finisher.")
    ctx.not_decided[:] = ["termination of the random search for a populated bin in the non-empty case (needs a property of the ChaCha stream)"]
    n = 0
    for prefix in (OD, RD):
        n += dens_rules(ctx, facts, prefix)
        dens_seed(ctx, facts, prefix)
        bookkeeping(ctx, facts, prefix)
        idempotent(ctx, facts, prefix)
        empty_guard(ctx, facts, prefix)
        panic_rules(ctx, facts, prefix)
        C04._dens_sketch(ctx, facts, prefix)
        C04.deleg_slice(ctx, facts, prefix + "sketch_slice", finisher="densify")
    ctx.floor("C09 densify write/copy instances", n, 8)
    from . import C13
    C13.require_verified_reset(ctx, facts, [C13.OD, C13.RD], "REINIT")
    u32view(ctx, facts)
    table = {k: v for k, v in C04.SEED_TABLE.items() if "densminhash" in k}
    ns = check_seeds(ctx, facts, "SEED", table)
    ctx.floor("C09 seeding sites", ns, 4)
