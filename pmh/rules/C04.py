"""C04 — unweighted sketches have set semantics (structural clauses)."""
import re

from .. import hirq, nf, slicer
from ..rulelib import (def_exprs, for_loops, check_seeds, check_roots, tree_of, slicer_of, user_nodes, writes_to_self, self_method_calls,
                       hir_dominates, loop_exits, mutating_self_calls, unconditional_within, while_body, short, resolver_of)

SMH = "superminhasher::SuperMinHash::<F, T, H>::"
SMH2 = "superminhasher2::SuperMinHash2::<I, T, H>::"
SS = "setsketcher::SetSketcher::<I, T, H>::"
OD = "densminhash::OptDensMinHash::<F, D, H>::"
RD = "densminhash::RevOptDensMinHash::<F, D, H>::"

RULES = {
    "GUARD": "every write to a register outside new/reinit is control-dependent on a comparison of the value written with "
             "the current content at the same index, in the improving direction, and the value written is the compared "
             "value (or its tabled clamp)",
    "PROV": "the value written to a register depends only on draws of the item's generator, the draw counter and sketcher "
            "parameters — not on item_rank, nbmin, lower_k, or other registers",
    "SEED": "the per-item generator is seeded from the item hash (item, b_hasher) only; densification generators from the bin "
            "index, sketch size, pass number and constants only — never from register contents or counters",
    "EXIT": "the draw loop of SuperMinHash/SuperMinHash2 is left only when j > a_upper; the two breaks of SetSketcher::sketch "
            "compare a value derived from the current draw with the unmodified lower bound, with the tabled strictness",
    "COUNTER": "item_rank += 1 executes exactly once on every path through SuperMinHash::sketch (the marker array q identifies "
               "'initialised for this item' by it)",
    "RESETBEFORE": "permut_generator.reset() dominates the first permut_generator.next() in SuperMinHash2::sketch and "
                   "SetSketcher::sketch",
    "DELEG": "sketch_slice is a per-element delegation to sketch (plus the tabled finisher for the densified sketchers) with no "
             "other effect on self",
    "PAIR": "a stored hash is written together with its register value under the same guard and comes from the streamed item",
    "TIE": "registers carrying a payload and a narrow key (densified sketchers, F may be f32) use an order-insensitive guard: "
           "strictly smaller, or equal and tie-broken on the payload",
    "HISTO": "the histogram b[] of integer parts and a_upper (which bound the draw loop) follow every register move: old level "
             "decremented and new level incremented together, old level read before it is overwritten, a_upper lowered only while its "
             "level is empty",
    "SKIP": "a sketch method cannot be left by return / ? / continue before its last register write: every streamed item is offered",
    "REINIT": "reinit re-establishes every live mutated field with the constructor's value for the five sketchers (RESET analysis of C13)",
    "MARKER": "SuperMinHash's inline shuffle re-initialises p[x] exactly when q[x] != current item rank, and marks it",
}

SEED_TABLE = {
    SMH + "sketch": [dict(callee="seed_from_u64", allowed=["param #1:*", "self.b_hasher"], required=["param #1:*"])],
    SMH2 + "sketch": [dict(callee="seed_from_u64", allowed=["param #1:*", "self.b_hasher"], required=["param #1:*"])],
    SS + "sketch": [dict(callee="seed_from_u64", allowed=["param #1:*", "self.b_hasher"], required=["param #1:*"])],
    OD + "sketch": [dict(callee="seed_from_u64", allowed=["param #1:*", "self.b_hasher"], required=["param #1:*"])],
    RD + "sketch": [dict(callee="seed_from_u64", allowed=["param #1:*", "self.b_hasher"], required=["param #1:*"])],
    OD + "densify": [dict(callee="seed_from_u64", allowed=["len(self.hsketch)"], required=["len(self.hsketch)"])],
    # the pass counter of the reverse densification is advanced once per sweep, under `while nb_empty > 0`
    RD + "densify": [dict(callee="seed_from_u64", allowed=["len(self.hsketch)", "self.nb_empty"], required=["len(self.hsketch)"])],
}

GEN_OK = ["param #1:*", "self.b_hasher", "call num::one*", "call num::zero*", "call rand_distr::Uniform*",
          "len(self.hsketch)", "self.permut_generator"]


from ..rulelib import before as _before


def _has(conds, a, ops, b):
    return nf.has_cmp(conds, a, ops, b) is not None


def _smh(ctx, facts):
    fid = SMH + "sketch"
    fn = facts.fn(fid)
    t = tree_of(fn)
    sl = slicer_of(fn)
    R = resolver_of(fn)
    n = 0
    for (w, f, idx) in writes_to_self(fn, "hsketch"):
        n += 1
        where = hirq.loc(w)
        reg = nf.nf(w["l"], True, res=R)
        val = nf.nf(w["r"], True, res=R)
        conds = nf.control_facts(t, w, res=R)
        if w["k"] == "Assign" and _has(conds, val, ("<", "<="), reg):
            ctx.ok("GUARD", fid, "%s = %s under %s < %s" % (nf.nf(w["l"], True), nf.nf(w["r"], True), nf.nf(w["r"], True), nf.nf(w["l"], True)), where)
        else:
            ctx.violation("GUARD", fid, "hsketch write", where, "`%s` is not guarded by `%s < %s` (conditions: %s)" % (nf.nf(w)[:60], nf.nf(w["r"], True), nf.nf(w["l"], True), conds[:3]))
        check_roots(ctx, "PROV", fid, "value written to hsketch", where, sl.roots(w["r"]), GEN_OK)
    # marker discipline of the inline shuffle: `if q[x] != item_rank { q[x] = item_rank; p[x] = x }`
    RANK = "self.item_rank"
    for (w, f, idx) in writes_to_self(fn, "p"):
        where = hirq.loc(w)
        i = nf.nf(idx[0], True, res=R)
        conds = nf.all_conditions(t, w, res=R)
        blk = t.parent.get(id(w))
        mark = [x for (x, ff, ii) in writes_to_self(fn, "q") if t.parent.get(id(x)) is blk and nf.nf(ii[0], True, res=R) == i and nf.nf(x["r"], True, res=R) == RANK]
        if nf.nf(w["r"], True, res=R) == i and (_has(conds, RANK, ("!=",), "self.q[%s]" % i) or _has(conds, "self.q[%s]" % i, ("!=",), RANK)) and mark:
            ctx.ok("MARKER", fid, "p[x] = x and q[x] = item_rank under q[x] != item_rank (x = %s)" % nf.nf(idx[0], True), where)
        else:
            ctx.violation("MARKER", fid, "p write", where, "`%s` is not the guarded re-initialisation `if q[x] != item_rank { q[x] = item_rank; p[x] = x }`" % nf.nf(w)[:60])
    # the marker's initial value must not be a rank an item can carry: q starts strictly below the first item_rank, and item_rank
    # only grows (COUNTER) — otherwise the first item after new/reinit finds its positions "already initialised"
    from . import C13
    from .. import reset as _reset
    cfn = facts.fn(SMH + "new")
    cs = _reset.ctor_specs(cfn, "SuperMinHash", C13.auto_aliases(facts, C13.SMH))
    q0, r0 = cs.get("q"), cs.get("item_rank")

    def _int(sp_, kind):
        try:
            return int(sp_.val) if sp_ is not None and sp_.kind == kind and not sp_.overrides else None
        except (TypeError, ValueError):
            return None
    qv, rv = _int(q0, "fill"), _int(r0, "scalar")
    if qv is not None and rv is not None and qv < rv:
        ctx.ok("MARKER", SMH + "new", "marker q starts at %d, below the first item rank %d" % (qv, rv), hirq.loc(cfn))
    else:
        ctx.violation("MARKER", SMH + "new", "initial marker", hirq.loc(cfn),
                      "the permutation marker q is initialised as %s and item_rank as %s: the marker must start strictly below the first rank, "
                      "or the first item sketched finds q[x] == item_rank and never resets p to the identity" % (q0, r0))
    swaps = self_method_calls(fn, "p", ["swap"])
    if len(swaps) == 1:
        ctx.ok("MARKER", fid, "exactly one p.swap per draw", hirq.loc(swaps[0]))
    else:
        ctx.violation("MARKER", fid, "p.swap count", hirq.loc(fn), "expected exactly one self.p.swap(j, k) per draw, found %d" % len(swaps))
    return n


def _draw_loops(fn):
    """top-level loops that can be the draw loop: while/loop, or a `for` over an integer range"""
    t = tree_of(fn)
    return [x for x in t.nodes if x["k"] == "Loop" and x["src"] in ("While", "Loop", "ForLoop") and not t.enclosing_loops(x)
            and not hirq.in_log_macro(x)]


def draw_counter(fn):
    """name of the draw counter: the local compared with self.a_upper in the guard (or in a leading break) of the top-level
    draw loop; it may be a mutable local of a while loop or the variable of a `for` over a range"""
    t = tree_of(fn)
    for lp in _draw_loops(fn):
        for (kind, node) in loop_exits(fn, lp):
            if kind in ("guard", "break"):
                for c in nf.all_conditions(t, node, stop=lp):
                    if c[0] == "cmp" and c[1] == "self.a_upper" and c[2] in ("<", "<="):
                        return c[3]
    return "j"


def _smh2(ctx, facts):
    """registers of SuperMinHash2 are lexicographic minima of (level l[k], value values[k]) with payload hsketch[k]:
    same level: values and hsketch written together under value <= current (64-bit key: tie exempt), l untouched;
    strictly lower level: l[k] = counter, values and hsketch written together"""
    fid = SMH2 + "sketch"
    fn = facts.fn(fid)
    t = tree_of(fn)
    sl = slicer_of(fn)
    R = resolver_of(fn)
    J = draw_counter(fn)
    n = 0
    ws = writes_to_self(fn)
    for (w, f, idx) in ws:
        if f not in ("values", "hsketch", "l"):
            continue
        n += 1
        where = hirq.loc(w)
        k = nf.nf(idx[0], True)
        kr = nf.nf(idx[0], True, res=R)
        L = "self.l[%s]" % kr
        conds = nf.all_conditions(t, w, res=R)
        blk = t.parent.get(id(w))
        sib = {ff: x for (x, ff, ii) in ws if t.parent.get(id(x)) is blk and ii and nf.nf(ii[0], True, res=R) == kr}
        tie = _has(conds, J, ("==",), L) or _has(conds, L, ("==",), J)
        lower = _has(conds, J, ("<",), L) or ((_has(conds, J, ("!=",), L) or _has(conds, L, ("!=",), J)) and _has(conds, J, ("<=",), L))
        good = False
        if tie and not lower:
            rv = nf.nf(sib["values"]["r"], True, res=R) if "values" in sib else None
            good = rv is not None and _has(conds, rv, ("<=", "<"), "self.values[%s]" % kr) and "l" not in sib and "hsketch" in sib
        elif lower and not tie:
            good = "l" in sib and nf.nf(sib["l"]["r"], True, res=R) == J and "values" in sib and "hsketch" in sib
        if good:
            ctx.ok("GUARD", fid, "%s under %s" % (nf.nf(w)[:40], nf.all_conditions(t, w)[:3]), where)
        else:
            ctx.violation("GUARD", fid, "%s write" % f, where,
                          "`%s` is not a guarded lexicographic improvement of (l[%s], values[%s]) written together with hsketch[%s]; conditions %s"
                          % (nf.nf(w)[:50], k, k, k, nf.all_conditions(t, w)[:3]))
        if f == "values":
            check_roots(ctx, "PROV", fid, "value written to values", where, sl.roots(w["r"]), GEN_OK)
        if f == "hsketch":
            check_roots(ctx, "PAIR", fid, "hash stored in hsketch", where, sl.roots(w["r"]), ["param #1:*", "self.b_hasher"], ["param #1:*"])
    return n


IMAX = "num::Bounded::max_value().to_u64().unwrap()"


def _setsketch(ctx, facts):
    fid = SS + "sketch"
    fn = facts.fn(fid)
    t = tree_of(fn)
    sl = slicer_of(fn)
    R = resolver_of(fn)
    n = 0
    for (w, f, idx) in writes_to_self(fn, "k_vec"):
        n += 1
        where = hirq.loc(w)
        i = nf.nf(idx[0], True, res=R)
        conds = nf.control_facts(t, w, res=R)
        cur = "self.k_vec[%s].to_u64().unwrap()" % i
        val = nf.nf(w["r"], True, res=R)
        # the compared value c: cur < c
        c = None
        for it in conds:
            if it[0] == "cmp" and it[2] == "<" and it[1] == cur:
                c = it[3]
        good = False
        if w["k"] == "Assign" and c is not None:
            # case by case when the stored value goes through `let stored = if k > imax { imax } else { k }`
            alts = nf.alternatives(w["r"], R)
            good = bool(alts)
            for (ac, v_) in alts:
                cs_ = conds + ac
                if v_ == "num::FromPrimitive::from_u64(%s).unwrap()" % c and _has(cs_, c, ("<=",), IMAX):
                    continue
                if v_ == "num::FromPrimitive::from_u64(%s).unwrap()" % IMAX and _has(cs_, IMAX, ("<",), c):
                    continue      # clamp to the register type's maximum
                good = False
        if good:
            ctx.ok("GUARD", fid, "%s under current register < candidate (%s)" % (nf.nf(w, True)[:60], "clamped to I::max" if IMAX in val else "candidate written"), where)
        else:
            ctx.violation("GUARD", fid, "k_vec write", where,
                          "`%s` is not `k_vec[i] = k` (or its clamp to I::max_value()) under `k > k_vec[i]`; conditions %s" % (nf.nf(w)[:70], nf.all_conditions(t, w)[:3]))
        check_roots(ctx, "PROV", fid, "value written to k_vec", where, sl.roots(w["r"]),
                    ["param #1:*", "self.b_hasher", "self.a", "self.lnb", "self.m", "self.q", "self.permut_generator",
                     "const rand_distr::Exp1", "call num::Bounded::max_value*"])
    return n


def regvalue_rule(ctx, facts):
    """REGVALUE: the candidate register value of SetSketcher::sketch is max(0, min(q+1, floor(1 - log_b x_j))) with
    log_b x = ln(x)/lnb — the truncation applied to (1 - log_b x), clamped to [0, q+1]"""
    ctx.rule("REGVALUE", "the value offered to a SetSketch register is max(0, min(q+1, floor(1 - ln(x_j)/lnb))): floor applied to "
                         "(1 - log_b x_j) as a whole, then clamped to [0, q+1] (either clamp order)")
    fid = SS + "sketch"
    fn = facts.fn(fid)
    cand = setsketch_candidate(fn)
    if cand is None:
        ctx.violation("REGVALUE", fid, "cannot-establish: candidate", hirq.loc(fn), "no register guard `k > k_vec[i]` from which to read the candidate value")
        return
    c = cand.replace(" ", "")
    FL = r"\(1(?:\.0)?-\((\w+)\.ln\(\)/self\.lnb\)\)\.floor\(\)"
    Q1 = r"(?:\(1\+self\.q\)|\(self\.q\+1\))"
    forms = [r"^0\.max\(%s\.min\(%s\)\)$" % (Q1, FL), r"^%s\.min\(0\.max\(%s\)\)$" % (Q1, FL),
             r"^0\.max\(%s\.min\(%s\)\)$" % (FL, Q1), r"^std::cmp::max\(0,std::cmp::min\(%s,%s\)\)$" % (Q1, FL),
             r"^std::cmp::max\(0,std::cmp::min\(%s,%s\)\)$" % (FL, Q1)]
    if any(re.match(f_, c) for f_ in forms):
        ctx.ok("REGVALUE", fid, "candidate = %s" % cand[:90], hirq.loc(fn))
    else:
        ctx.violation("REGVALUE", fid, "candidate formula", hirq.loc(fn),
                      "the candidate register value is `%s`; expected max(0, min(q+1, floor(1 - ln(x_j)/lnb))) — e.g. `1 - floor(log_b x)` is the ceiling of "
                      "(1 - log_b x) and shifts every register by one" % cand[:140])


def _is_exp1_sample(n):
    if n["k"] != "MethodCall" or n["name"] != "sample":
        return False
    for x in [n["recv"]] + n["args"]:
        x = nf.strip_casts(x)
        if x["k"] in ("Path", "Struct") and str(x.get("res", {}).get("path", "")).endswith("Exp1"):
            return True
    return False


def _range_of(it):
    """(lo, hi_exclusive_offset, hi, reversed) of the iterated range: `lo..hi`, `lo..=hi`, optionally `.rev()`; None if another shape"""
    it = nf.strip_casts(it)
    rev = False
    while it["k"] == "MethodCall" and it["name"] in ("rev", "into_iter") and not it["args"]:
        rev = rev != (it["name"] == "rev")
        it = nf.strip_casts(it["recv"])
    if it["k"] == "Struct" and it.get("res", {}).get("path") == "std::ops::Range":
        f = {x["name"]: x["e"] for x in it["fields"]}
        return f["start"], f["end"], 0, rev
    if it["k"] == "Call" and short(it.get("callee", "")) == "new" and "RangeInclusive" in it.get("callee", "") and len(it["args"]) == 2:
        return it["args"][0], it["args"][1], 1, rev
    return None


def spacing_rule(ctx, facts):
    """SPACING: the points offered to the registers are the cumulated exponential spacings of the SetSketch1 sequence:
    x_t = x_(t-1) + Exp(1) / (a * (m - t)) for t = 0..m-1 with x_(-1) = 0 (Ertl 2021, algorithm 'SetSketch1'). Decided as an
    equality of rational functions (pmh/ratfn.py), with the loop variable expressed by the iteration number t."""
    from .. import ratfn
    ctx.rule("SPACING", "in SetSketcher::sketch the t-th point of an item is x_t = x_(t-1) + Exp1 / (self.a * (self.m - t)), x_(-1) = 0: "
                        "the coefficient of the Exp1 sample is that rational function of the iteration number (any algebraic form), "
                        "the sum is carried from one iteration to the next and starts from 0")
    fid = SS + "sketch"
    fn = facts.fn(fid)
    t = tree_of(fn)
    R = resolver_of(fn)
    sites = [n for n in user_nodes(fn) if _is_exp1_sample(n)]
    if len(sites) != 1:
        ctx.violation("SPACING", fid, "cannot-establish: Exp1 sample", hirq.loc(fn), "expected one `sample(Exp1)` site in sketch, found %d" % len(sites))
        return
    S = sites[0]
    from ..rulelib import counted_loop
    encl = t.enclosing_loops(S)
    if not encl:
        ctx.violation("SPACING", fid, "cannot-establish: draw loop", hirq.loc(S), "the Exp1 sample is not inside a loop")
        return
    cl = counted_loop(fn, encl[0])
    if cl is None:
        ctx.violation("SPACING", fid, "cannot-establish: loop range", hirq.loc(encl[0]),
                      "the draw loop is not a counted loop (`for v in lo..hi | lo..=hi [.rev()]`, or `while c > 0 { ..; c -= 1 }` / `while c < n { ..; c += 1 }` "
                      "with one unconditional top-level step): the iteration number of a draw cannot be established")
        return
    fl = {"body": cl["body"], "loop": encl[0]}
    jname = cl["var"]
    T = (ratfn.p_atom("#t"), ratfn.ONE)
    jt = cl["value"](S)
    # the statement holding the sample
    st = S
    while True:
        par = t.parent.get(id(st))
        if par is None or par["k"] in ("Let", "Assign", "AssignOp"):
            st = par
            break
        st = par
    if st is None:
        ctx.violation("SPACING", fid, "cannot-establish: sample statement", hirq.loc(S), "the Exp1 sample is not the initialiser of a `let` or the right side of an assignment")
        return
    E = st["init"] if st["k"] == "Let" else st["r"]
    sub = {id(S): (ratfn.p_atom("#E"), ratfn.ONE)}
    r = ratfn.rat(E, R, sub)
    # a named increment (`let spacing = C * sample; x_acc += spacing;`): follow the immutable local to the one statement that uses it
    for _ in range(3):
        if not (st["k"] == "Let" and st["pat"].get("k") == "Bind" and "Mut" not in st["pat"].get("mode", "")):
            break
        lid_ = st["pat"]["id"]
        uses = [x for x in user_nodes(fn) if x["k"] == "Path" and x["res"].get("local") == lid_ and not hirq.in_log_macro(x)]
        if len(uses) != 1:
            break
        st2 = uses[0]
        while st2 is not None and st2["k"] not in ("Let", "Assign", "AssignOp"):
            st2 = t.parent.get(id(st2))
        if st2 is None or st2 is st:
            break
        sub[st["pat"]["name"]] = r
        st = st2
        E = st["init"] if st["k"] == "Let" else st["r"]
        r = ratfn.rat(E, None, sub)
    lin = ratfn.linear_in(r, "#E")
    if lin is None:
        ctx.violation("SPACING", fid, "not linear in the sample", hirq.loc(st), "`%s` is not of the form A + C * Exp1" % nf.nf(E, True)[:100])
        return
    A, C = lin
    C = ratfn.substitute(C, jname, jt)
    a_, m_ = (ratfn.p_atom("self.a"), ratfn.ONE), (ratfn.p_atom("self.m"), ratfn.ONE)
    want = (ratfn.ONE, ratfn.p_mul(a_[0], ratfn.p_add(m_[0], T[0], -1)))
    if ratfn.equal(C, want):
        ctx.ok("SPACING", fid, "coefficient of Exp1 at iteration t = %s" % ratfn.show(C), hirq.loc(S))
    else:
        ctx.violation("SPACING", fid, "spacing rate", hirq.loc(S),
                      "the coefficient of the Exp1 sample at iteration t is `%s`, expected 1/(self.a*(self.m - t)): the points are not the "
                      "order statistics of m exponentials of rate a, registers are offered too small or too large values" % ratfn.show(C)[:160])
    # the carried sum
    carry = None
    if st["k"] == "AssignOp" and st["op"] in ("+", "+=") and nf.strip(st["l"])["k"] == "Path" and ratfn.equal(A, (ratfn.ZERO, ratfn.ONE)):
        carry = nf.strip(st["l"])["res"]
        target = carry
    else:
        for x in user_nodes(fn):
            if x["k"] == "Path" and "local" in x["res"] and t.contains(E, x) and ratfn.equal(A, (ratfn.p_atom(x["res"]["name"]), ratfn.ONE)):
                carry = x["res"]
                break
        target = st["pat"] if st["k"] == "Let" and st["pat"].get("k") == "Bind" else (nf.strip(st["l"])["res"] if st["k"] == "Assign" and nf.strip(st["l"])["k"] == "Path" else None)
    if carry is None:
        ctx.violation("SPACING", fid, "no carried sum", hirq.loc(st),
                      "`%s`: the part that does not multiply the sample is `%s`, expected the previous point (one mutable local)" % (nf.nf(E, True)[:80], ratfn.show(A)[:60]))
        return
    cid = carry["local"]
    # initial value 0 and the hand-over x_pred = x_j on every iteration
    lets = [x for x in user_nodes(fn) if x["k"] == "Let" and x["pat"].get("k") == "Bind" and x["pat"]["id"] == cid]
    init_ok = bool(lets) and "init" in lets[0] and not t.contains(fl["loop"], lets[0]) and ratfn.equal(ratfn.rat(lets[0]["init"], R), (ratfn.ZERO, ratfn.ONE))
    if not init_ok:
        ctx.violation("SPACING", fid, "carried sum start", hirq.loc(lets[0]) if lets else hirq.loc(st),
                      "the carried point `%s` must be a local initialised to 0 before the draw loop" % carry["name"])
    ws = [x for x in user_nodes(fn) if x["k"] in ("Assign", "AssignOp") and nf.strip(x["l"])["k"] == "Path" and nf.strip(x["l"])["res"].get("local") == cid]
    body = fl["body"]
    top = body["stmts"] + ([body["expr"]] if "expr" in body else [])
    good = False
    if st["k"] == "AssignOp":
        good = len(ws) == 1 and any(s_ is st or (s_["k"] == "Semi" and s_.get("e") is st) for s_ in top)
        how = "`%s += C*Exp1` at the top level of the loop body" % carry["name"]
    else:
        tid = target["id"] if target is not None and "id" in target else (target or {}).get("local")
        hand = [x for x in ws if x["k"] == "Assign" and nf.strip(x["r"])["k"] == "Path" and nf.strip(x["r"])["res"].get("local") == tid]
        if len(ws) == 1 and len(hand) == 1:
            h = hand[0]
            idx = [i for i, s_ in enumerate(top) if s_ is h or t.contains(s_, h) and s_["k"] in ("Semi",)]
            direct = [i for i, s_ in enumerate(top) if s_ is h or (s_["k"] == "Semi" and s_.get("e") is h)]
            if direct:
                early = [x for x in t.nodes if x["k"] == "Continue" and t.contains(body, x) and any(t.contains(s_, x) for s_ in top[:direct[0]])]
                good = not early
        how = "`%s = %s` once, at the top level of the loop body, before any `continue`" % (carry["name"], (target or {}).get("name", "?"))
    if good and init_ok:
        ctx.ok("SPACING", fid, "points are cumulated: %s starts at 0, %s" % (carry["name"], how), hirq.loc(st))
    elif not good:
        ctx.violation("SPACING", fid, "carried sum hand-over", hirq.loc(st),
                      "expected %s; found %d write(s) to %s" % (how, len(ws), carry["name"]))
    # the value whose logarithm is offered is the new point
    cand = setsketch_candidate(fn)
    if cand is not None and target is not None:
        name = target.get("name")
        m_ = re.search(r"\((\w+)\.ln\(\)", cand.replace(" ", ""))
        if m_ and m_.group(1) != name:
            ctx.violation("SPACING", fid, "offered point", hirq.loc(st), "the register candidate takes the logarithm of `%s`, the cumulated point is `%s`" % (m_.group(1), name))
        elif m_:
            ctx.ok("SPACING", fid, "the candidate register value is computed from ln(%s)" % name, hirq.loc(st))


def setsketch_candidate(fn):
    """resolved normal form of the candidate register value k (the value compared with the current register)"""
    t = tree_of(fn)
    R = resolver_of(fn)
    for (w, f, idx) in writes_to_self(fn, "k_vec"):
        i = nf.nf(idx[0], True, res=R)
        cur = "self.k_vec[%s].to_u64().unwrap()" % i
        for it in nf.control_facts(t, w, res=R):
            if it[0] == "cmp" and it[2] == "<" and it[1] == cur:
                return it[3]
    return None


def _dens_sketch(ctx, facts, prefix):
    fid = prefix + "sketch"
    fn = facts.fn(fid)
    t = tree_of(fn)
    sl = slicer_of(fn)
    R = resolver_of(fn)
    ws = writes_to_self(fn)
    n = 0
    for (w, f, idx) in ws:
        if f not in ("hsketch", "values"):
            continue
        n += 1
        where = hirq.loc(w)
        k = kr = nf.nf(idx[0], True, res=R)
        conds = nf.control_facts(t, w, res=R)
        blk = t.parent.get(id(w))
        sib = {ff: x for (x, ff, ii) in ws if t.parent.get(id(x)) is blk and ii and nf.nf(ii[0], True, res=R) == kr}
        if "hsketch" not in sib or "values" not in sib:
            ctx.violation("PAIR", fid, "%s write alone" % f, where, "hsketch[%s] and values[%s] must be written together in the same block" % (k, k))
            continue
        r = nf.nf(sib["hsketch"]["r"], True, res=R)
        p = nf.nf(sib["values"]["r"], True, res=R)
        reg = "self.hsketch[%s]" % k
        pay = "self.values[%s]" % k
        strict = _has(conds, r, ("<",), reg)
        weak = _has(conds, r, ("<=",), reg)
        tieb = False
        for it in conds:
            if it[0] == "or" and len(it[1]) == 2:
                a, b = it[1]
                for (x, y) in ((a, b), (b, a)):
                    if _has(x, r, ("<",), reg) and len(x) == 1 and (_has(y, r, ("==",), reg) or _has(y, reg, ("==",), r)) and (_has(y, p, ("<",), pay)):
                        tieb = True
        if tieb:
            ctx.ok("GUARD", fid, "%s under %s < %s || (== && %s < %s)" % (nf.nf(w)[:30], r, reg, p, pay), where)
            ctx.ok("TIE", fid, "order-insensitive guard on (%s, %s)" % (reg, pay), where)
        elif strict:
            ctx.ok("GUARD", fid, "%s under %s < %s" % (nf.nf(w)[:30], r, reg), where)
            ctx.violation("TIE", fid, "payload register guarded by <", where,
                          "with a strict guard the first of two items tying on %s keeps the bin, so the stored hash depends on arrival order (F may be f32: ties are reachable)" % r)
        elif weak:
            ctx.ok("GUARD", fid, "%s under %s <= %s" % (nf.nf(w)[:30], r, reg), where)
            ctx.violation("TIE", fid, "payload register guarded by <=", where,
                          "`%s <= %s` lets a later item that ties on the value replace the stored hash: the u64 view depends on arrival order" % (r, reg))
        else:
            ctx.violation("GUARD", fid, "%s write" % f, where, "`%s` is not guarded by a comparison of %s with %s; conditions %s" % (nf.nf(w)[:50], r, reg, conds[:2]))
        if f == "values":
            check_roots(ctx, "PAIR", fid, "hash stored in values", where, sl.roots(w["r"]), ["param #1:*", "self.b_hasher"], ["param #1:*"])
        else:
            check_roots(ctx, "PROV", fid, "value written to hsketch", where, sl.roots(w["r"]), GEN_OK)
    return n


def histo_init(ctx, facts, which):
    """HISTO (initial state): the histogram counts, per level, the registers at that level; a new sketcher has all N registers at
    the top level N-1 (SuperMinHash: register value MAX, whose level is min(MAX, N-1); SuperMinHash2: l[k] = N-1), so the
    constructor must give b = [0, .., 0, N] and a_upper = N-1. (reinit is tied to the constructor by REINIT.)"""
    from . import C13
    from .. import reset
    S = C13.SMH if which == "smh" else C13.SMH2
    fid = S["prefix"] + S["ctor"]
    fn = facts.fn(fid)
    al = C13.auto_aliases(facts, S)
    cs = reset.ctor_specs(fn, S["name"], al)
    b, au = cs.get("b"), cs.get("a_upper")
    okb = b is not None and b.kind == "fill" and b.val == "0" and b.size == "N" and sorted(b.overrides) == [("(N - 1)", "N")]
    oka = au is not None and au.kind == "scalar" and au.val == "(N - 1)"
    if which == "smh":
        h = cs.get("hsketch")
        okl = h is not None and h.kind == "fill" and h.size == "N" and re.search(r"MAX|max_value\(\)|INFINITY|infinity\(\)", h.val or "") is not None
        lvl = "hsketch = %s" % h
    else:
        l_ = cs.get("l")
        okl = l_ is not None and l_.kind == "fill" and l_.size == "N" and l_.val == "(N - 1)"
        lvl = "l = %s" % l_
    if okb and oka and okl:
        ctx.ok("HISTO", fid, "initial histogram b = [0,..,0,N], a_upper = N-1, all N registers at level N-1 (%s)" % lvl, hirq.loc(fn))
    else:
        ctx.violation("HISTO", fid, "initial histogram", hirq.loc(fn),
                      "a new sketcher must start with b = Fill(0; N) with [N-1] = N, a_upper = N-1 and every register at level N-1; found b = %s, a_upper = %s, %s: "
                      "the draw loop would stop before every position has been offered a value" % (b, au, lvl))


def _histo(ctx, facts, fid, kind):
    """HISTO: the histogram b[] of integer parts and its upper bound a_upper bound the draw loop; they must follow every
    register move: in the same guarded block b[old level] -= 1 and b[new level] += 1 (old level read before it is
    overwritten), then a_upper is lowered while b[a_upper] == 0 — and nowhere else are b / a_upper written"""
    histo_init(ctx, facts, kind)
    fn = facts.fn(fid)
    t = tree_of(fn)
    ws = writes_to_self(fn)
    bws = [(w, i) for (w, f, i) in ws if f == "b"]
    aws = [w for (w, f, i) in ws if f == "a_upper"]
    decs = [(w, i) for (w, i) in bws if w["k"] == "AssignOp" and w["op"] == "-=" and nf.nf(w["r"]) == "1"]
    incs = [(w, i) for (w, i) in bws if w["k"] == "AssignOp" and w["op"] == "+=" and nf.nf(w["r"]) == "1"]
    where = hirq.loc(fn)
    if len(decs) != 1 or len(incs) != 1 or len(bws) != 2:
        ctx.violation("HISTO", fid, "histogram updates", where, "expected exactly one `b[old] -= 1` and one `b[new] += 1` in the draw loop; found %d decrement(s), %d increment(s), %d write(s) to b" % (len(decs), len(incs), len(bws)))
        return
    (dec, di), (inc, ii) = decs[0], incs[0]
    R = resolver_of(fn)
    J = draw_counter(fn)
    blk = t.parent.get(id(dec))
    if t.parent.get(id(inc)) is not blk:
        ctx.violation("HISTO", fid, "histogram updates split", hirq.loc(inc), "the decrement of the old level and the increment of the new level are not in the same block")
        return
    # the old level as it was computed (its ordering w.r.t. the register write is decided below)
    old, new = nf.nf_def(di[0], R), nf.nf(ii[0], True, res=R)
    old_shown = nf.nf(di[0], True)
    conds = nf.all_conditions(t, dec, res=R)
    ok = new == J
    if kind == "smh":
        # old level = min(hsketch[p[j]] as usize, m-1) computed before the register is overwritten, moved only if j < old level
        want = {"std::cmp::min(self.hsketch[self.p[%s]].to_usize().unwrap(), (self.hsketch.len() - 1))" % J,
                "std::cmp::min((self.hsketch.len() - 1), self.hsketch[self.p[%s]].to_usize().unwrap())" % J,
                "self.hsketch[self.p[%s]].to_usize().unwrap().min((self.hsketch.len() - 1))" % J}
        regw = [w for (w, f, i) in ws if f == "hsketch"]
        d0 = nf.strip_casts(di[0])
        defn = []
        if d0["k"] == "Path" and "local" in d0["res"]:
            defn = [n for n in user_nodes(fn) if n["k"] == "Let" and n["pat"]["k"] == "Bind" and n["pat"]["id"] == d0["res"]["local"]]
        ok = ok and old in want and bool(regw) and bool(defn) and hir_dominates(t, defn[0], regw[0]) and \
            (nf.has_cmp(conds, J, ("<",), old) is not None or nf.has_cmp(conds, J, ("<",), old_shown) is not None)
        msg = "old level `%s` must be min(hsketch[p[%s]] as usize, m-1) read BEFORE the register is overwritten, and the move guarded by %s < old level" % (old_shown, J, J)
    else:
        # old level is l[k]; l[k] = j must come after the decrement in the same block
        lw = [w for (w, f, i) in ws if f == "l" and t.parent.get(id(w)) is blk]
        # the old level is l[k], read (possibly into an immutable local) before `l[k] = counter`
        d0 = nf.strip_casts(di[0])
        read_before = True
        if d0["k"] == "Path" and "local" in d0["res"]:
            lets = [n for n in user_nodes(fn) if n["k"] == "Let" and n["pat"]["k"] == "Bind" and n["pat"]["id"] == d0["res"]["local"]]
            read_before = bool(lets) and bool(lw) and hir_dominates(t, lets[0], lw[0])
        ok = ok and old.startswith("self.l[") and len(lw) == 1 and nf.nf(lw[0]["r"], True, res=R) == J and nf.nf(lw[0]["l"], True, res=R) == old and read_before and \
            (hir_dominates(t, dec, lw[0]) or d0["k"] == "Path")
        msg = "old level must be self.l[k], decremented before `self.l[k] = %s` in the same block" % J
    if ok:
        ctx.ok("HISTO", fid, "b[%s] -= 1; b[%s] += 1 in one guarded block, old level read before the move" % (old_shown, J), hirq.loc(dec))
    else:
        ctx.violation("HISTO", fid, "histogram move", hirq.loc(dec), "b[%s] -= 1 / b[%s] += 1: %s; conditions %s" % (old_shown, nf.nf(ii[0], True), msg, nf.all_conditions(t, dec)[:2]))
    # a_upper lowered only while its level is empty, right after the move
    good = len(aws) == 1
    if good:
        a = aws[0]
        ac = nf.all_conditions(t, a, stop=blk)
        step = nf.nf(a, True) in ("self.a_upper -= 1", "self.a_upper = (self.a_upper - 1)")
        loops = t.enclosing_loops(a)
        good = step and ac[:1] == [("cmp", "0", "==", "self.b[self.a_upper]")] and bool(loops) and t.contains(blk, loops[0]) and _before(fn, inc, a)
    if good:
        ctx.ok("HISTO", fid, "a_upper lowered only while b[a_upper] == 0, after the move", hirq.loc(aws[0]))
    else:
        ctx.violation("HISTO", fid, "a_upper update", hirq.loc(aws[0]) if aws else where, "a_upper must be lowered by `while self.b[self.a_upper] == 0 { self.a_upper -= 1 }` directly after the histogram move and written nowhere else in sketch (%d write(s) found)" % len(aws))


def counter_step(ctx, facts, fid):
    """STEP: the draw counter starts at 0 and advances by exactly one per iteration of the draw loop, on every path to the next
    iteration (or it is the variable of `for j in 0..N`)"""
    fn = facts.fn(fid)
    t = tree_of(fn)
    J = draw_counter(fn)
    loops = [l for l in _draw_loops(fn) if any(c[0] == "cmp" and c[1] == "self.a_upper" and c[3] == J for (k_, nd) in loop_exits(fn, l)
                                                for c in nf.all_conditions(t, nd, stop=l))]
    if len(loops) != 1:
        return       # EXIT reports this
    loop = loops[0]
    fl = [f for f in for_loops(fn) if f["loop"] is loop]
    if fl:
        rng = nf.nf(fl[0]["iter"], True, res=resolver_of(fn))
        if hirq.show_pat(fl[0]["pat"]) == J and rng.startswith("std::ops::Range{start:0, "):
            ctx.ok("STEP", fid, "draw counter %s is the variable of a `for` over 0..N" % J, hirq.loc(loop))
        else:
            ctx.violation("STEP", fid, "draw counter range", hirq.loc(loop), "the draw counter must run over 0, 1, 2, ...; the loop iterates `%s`" % rng[:80])
        return
    defs = def_exprs(fn, J)
    lets = [n for n in user_nodes(fn) if n["k"] == "Let" and n["pat"]["k"] == "Bind" and n["pat"]["name"] == J and "init" in n]
    incs = [d for d in defs if d["k"] == "AssignOp"]
    body = while_body(loop)
    good = len(lets) == 1 and nf.nf(lets[0]["init"], True) == "0" and not t.contains(loop, lets[0]) and len(defs) == 2 and len(incs) == 1 \
        and incs[0]["op"] == "+=" and nf.nf(incs[0]["r"], True) == "1" and body["k"] == "Block" and any(st is incs[0] for st in body["stmts"])
    skips = [x for x in user_nodes(fn) if x["k"] == "Continue" and t.contains(loop, x) and x.get("target", loop["id"]) == loop["id"]
             and not (incs and hir_dominates(t, incs[0], x))]
    # uses of the counter after the increment in the same iteration would see j+1
    late = []
    if good:
        pos = body["stmts"].index(incs[0])
        for st in body["stmts"][pos + 1:] + ([body["expr"]] if "expr" in body else []):
            late += [x for x in hirq.walk(st) if x["k"] == "Path" and x["res"].get("name") == J and "local" in x["res"] and not hirq.in_log_macro(x)
                     and not any(hirq.in_log_macro(a) for a in t.ancestors(x))]
    if good and not skips and not late:
        ctx.ok("STEP", fid, "draw counter %s = 0 before the loop, one unconditional `%s += 1` closing each iteration" % (J, J), hirq.loc(incs[0]))
    else:
        ctx.violation("STEP", fid, "draw counter step", hirq.loc(incs[0]) if incs else hirq.loc(loop),
                      "the draw counter `%s` must start at 0 and advance by exactly 1 once per iteration, unconditionally and after its last use "
                      "(definitions: %s; continue skipping it: %d; uses after the increment: %d): the j-th draw would not carry level j"
                      % (J, [nf.nf(d)[:30] for d in defs], len(skips), len(late)))


def _exit_aupper(ctx, facts, fid):
    fn = facts.fn(fid)
    t = tree_of(fn)
    J = draw_counter(fn)
    outer = [l for l in _draw_loops(fn) if any(c[0] == "cmp" and c[1] == "self.a_upper" and c[3] == J for (k_, nd) in loop_exits(fn, l)
                                                for c in nf.all_conditions(t, nd, stop=l))]
    if len(outer) != 1:
        ctx.violation("EXIT", fid, "draw loop", hirq.loc(fn), "expected exactly one top-level draw loop, found %d" % len(outer))
        return 0
    loop = outer[0]
    R = resolver_of(fn)
    n = 0
    for (kind, node) in loop_exits(fn, loop):
        # exits of inner loops are not exits of the draw loop
        if node.get("target") is not None and node["target"] != loop["id"]:
            continue
        n += 1
        conds = nf.all_conditions(t, node, stop=loop)
        if kind in ("guard", "break") and len(conds) == 1 and conds[0][:3] == ("cmp", "self.a_upper", "<") and conds[0][3] == J:
            ctx.ok("EXIT", fid, "draw loop left when j > a_upper", hirq.loc(node))
        elif kind == "iterator-exhausted":
            # `for j in 0..N` with N the length of the histogram b (= sketch size): a_upper indexes b, so a_upper <= N-1 on every
            # run that does not abort, and the counter reaching N implies j > a_upper. The counter must start at 0, step by 1
            # and must not be shadowed or reassigned (a `for` variable is immutable).
            fl = [f for f in for_loops(fn) if f["loop"] is loop]
            rng = nf.nf(fl[0]["iter"], True, res=R) if fl else ""
            sizes = ("self.hsketch.len()", "self.b.len()", "self.p.len()", "self.q.len()")
            if fl and hirq.show_pat(fl[0]["pat"]) == J and rng in tuple("std::ops::Range{start:0, end:%s}" % z for z in sizes):
                ctx.ok("EXIT", fid, "for %s in 0..m: the range end is the histogram length, reached only when %s > a_upper" % (J, J), hirq.loc(node))
            else:
                ctx.violation("EXIT", fid, "draw loop exit (%s)" % kind, hirq.loc(node),
                              "the draw loop is a `for` over `%s`: it can stop before j > self.a_upper unless the range is 0..<sketch size>" % rng)
        else:
            ctx.violation("EXIT", fid, "draw loop exit (%s)" % kind, hirq.loc(node), "the draw loop may only be left when j > self.a_upper; this exit is taken when %s" % (conds[:2],))
    return n


def _exit_setsketch(ctx, facts):
    fid = SS + "sketch"
    fn = facts.fn(fid)
    t = tree_of(fn)
    R = resolver_of(fn)
    loops = [n for n in t.nodes if n["k"] == "Loop" and not t.enclosing_loops(n) and not hirq.in_log_macro(n)]
    if len(loops) != 1:
        ctx.violation("EXIT", fid, "draw loop", hirq.loc(fn), "expected one top-level loop, found %d" % len(loops))
        return 0
    loop = loops[0]
    cand = setsketch_candidate(fn)
    n = 0
    from ..rulelib import counted_loop
    from .. import ratfn
    cl = counted_loop(fn, loop)
    guard_atoms = set()
    if cl is not None and cl.get("guard") is not None:
        guard_atoms = {repr(x) for x in nf.atoms(cl["guard"], True, res=R)} | {repr(x) for x in nf.atoms(cl["guard"], True)}
    for (kind, node) in loop_exits(fn, loop):
        if kind == "iterator-exhausted" or (kind == "guard" and cl is not None):
            # every item makes up to m draws, one per register: the loop must count m iterations (0..m, 1..=m reversed, a countdown from m, ..)
            fl = [f for f in for_loops(fn) if f["loop"] is loop]
            rng = nf.nf(fl[0]["iter"], True, res=R) if fl else (("counted loop on `%s`, %s iterations" % (cl["var"], ratfn.show(cl["count"]))) if cl else "?")
            n += 1
            full = cl is not None and any(ratfn.equal(cl["count"], (ratfn.p_atom(x), ratfn.ONE)) for x in ("self.m", "self.k_vec.len()"))
            if full:
                ctx.ok("EXIT", fid, "draw loop ranges over 0..m (one draw per register)", hirq.loc(node))
            else:
                ctx.violation("EXIT", fid, "draw range", hirq.loc(loop), "the draw loop of an item ranges over `%s`, not 0..self.m: some register is never offered a value of this item" % rng[:80])
            continue
        n += 1
        conds = [c_ for c_ in nf.all_conditions(t, node, stop=loop, res=R) if repr(c_) not in guard_atoms]
        shown = [c_ for c_ in nf.all_conditions(t, node, stop=loop) if repr(c_) not in guard_atoms]
        ok = False
        if kind == "break" and len(conds) == 1 and conds[0][0] == "cmp":
            _c, a, op, b = conds[0]
            import re as _re
            lb = r"^\(.+\.ln\(\) / self\.lnb\)$"
            if op == "<" and a == "-self.lower_k" and _re.match(lb, b):
                ok = True                       # lb_xj > -lower_k
            elif op == "<" and b == "self.lower_k" and a.startswith("-") and _re.match(lb, a[1:]):
                ok = True                       # -lb_xj < lower_k
            elif op == "<=" and b == "self.lower_k" and cand is not None and a == cand:
                ok = True                       # k <= lower_k
        if ok:
            ctx.ok("EXIT", fid, "break when %s" % (shown[0],), hirq.loc(node))
        else:
            ctx.violation("EXIT", fid, "break", hirq.loc(node),
                          "the draw loop may only be left on `log_b(x_j) > -lower_k` or `k <= lower_k` (k the candidate register value, unmodified lower bound, tabled strictness); this exit is taken when %s" % (shown[:2],))
    return n


def _counter(ctx, facts):
    fid = SMH + "sketch"
    fn = facts.fn(fid)
    t = tree_of(fn)
    incs = [w for (w, f, i) in writes_to_self(fn, "item_rank")]
    body = fn["hir"]
    ok = False
    if len(incs) == 1:
        w = incs[0]
        top = [s for s in body["stmts"] if s is w]
        if w["k"] == "AssignOp" and w["op"] == "+=" and nf.nf(w["r"]) == "1" and top:
            # no return / ? before it
            early = [x for x in user_nodes(fn) if x["k"] == "Ret" or (x["k"] == "Match" and str(x.get("src", "")).startswith("TryDesugar"))]
            idx = body["stmts"].index(w)
            bad = [x for x in early if any(t.contains(s, x) for s in body["stmts"][:idx])]
            if not bad:
                ok = True
    if ok:
        ctx.ok("COUNTER", fid, "self.item_rank += 1 once, unconditionally, at the top level of the body", hirq.loc(incs[0]))
    else:
        ctx.violation("COUNTER", fid, "item_rank increment", hirq.loc(incs[0]) if incs else hirq.loc(fn),
                      "expected exactly one unconditional `self.item_rank += 1` on every path through sketch; found %d increment(s)%s"
                      % (len(incs), "" if len(incs) != 1 else " (conditional, or an early return precedes it)"))


def _resetbefore(ctx, facts, fid):
    fn = facts.fn(fid)
    t = tree_of(fn)
    resets = self_method_calls(fn, "permut_generator", ["reset"])
    nexts = self_method_calls(fn, "permut_generator", ["next"])
    if not nexts:
        ctx.violation("RESETBEFORE", fid, "no slot draw", hirq.loc(fn), "permut_generator.next is never called")
    for nx in nexts:
        if any(hir_dominates(t, r, nx) for r in resets):
            ctx.ok("RESETBEFORE", fid, "permut_generator.reset() dominates next()", hirq.loc(nx))
        else:
            ctx.violation("RESETBEFORE", fid, "next without reset", hirq.loc(nx),
                          "permut_generator.next() is reachable without a preceding reset() for the same item: slot order leaks between items")


def drawseq_rule(ctx, facts, fid):
    """DRAWSEQ: inside the draw loop of one item, every draw on the item's generator happens on every iteration that is not the
    last one: no draw is under a condition (an `if`, or an earlier `if .. { continue }`) other than the loop's own exits. A draw
    made only when a register could improve makes the item's later values depend on what was sketched before it."""
    from ..rulelib import seed_sites
    fn = facts.fn(fid)
    t = tree_of(fn)
    gens = set()
    for x in user_nodes(fn):
        if x["k"] == "Let" and x["pat"].get("k") == "Bind" and "init" in x and any(y in seed_sites(fn) for y in hirq.walk(x["init"])):
            gens.add(x["pat"]["id"])
    if not gens:
        return 0
    n = 0
    for x in user_nodes(fn):
        if x["k"] != "MethodCall" or x["name"] not in ("sample", "next", "random", "random_range", "next_u32", "next_u64", "gen", "gen_range"):
            continue
        if not any(y["k"] == "Path" and y.get("res", {}).get("local") in gens for y in hirq.walk(x)):
            continue
        loops = t.enclosing_loops(x)
        if not loops:
            continue
        n += 1
        lp = loops[-1]
        conds = nf.all_conditions(t, x, stop=lp)
        if lp["src"] == "While":
            b_ = lp["body"]
            first = b_.get("expr") if not b_["stmts"] else None
            if first is not None and first["k"] == "If":
                own = nf.atoms(first["c"], True)
                conds = [c for c in conds if c not in own]
        if conds:
            ctx.violation("DRAWSEQ", fid, "conditional draw", hirq.loc(x),
                          "`%s` draws from the item's generator only when %s: the number of values taken from it, hence every later value of "
                          "the item, depends on the state of the sketch" % (hirq.show(x)[:60], conds[:2]))
        else:
            ctx.ok("DRAWSEQ", fid, "`%s` on every iteration of the draw loop" % hirq.show(x)[:50], hirq.loc(x))
    return n


def nohash_rule(ctx, facts):
    """NOHASH: the pass-through hashers of the crate (three copies of NoHashHasher) assemble the 4 or 8 bytes they are given into
    one word big-endian, every byte exactly once — bytes[i] << 8*(N-1-i) summed or or-ed, `from_be_bytes` of the bytes in order, or
    the fold `acc << 8 | b` over all of them. A byte used twice (and another dropped) makes distinct items hash alike: with this
    hasher two such items are one element of the sketched set. Forms the evaluator does not know are listed as information."""
    ctx.rule("NOHASH", "every NoHashHasher::write assembles its 4 or 8 bytes big-endian with each byte used exactly once (explicit shifts, "
                       "from_be_bytes of the bytes in order, or the fold acc << 8 | b): distinct items keep distinct hashes")
    n = 0
    for fid, fn in facts.fns.items():
        if "hir" not in fn or not fid.endswith("NoHashHasher as std::hash::Hasher>::write"):
            continue
        R = resolver_of(fn)
        t = tree_of(fn)
        BY = hirq.show_pat(fn["params"][1]["pat"]) if len(fn.get("params", [])) > 1 else "bytes"
        sites = []
        for x in user_nodes(fn):
            if x["k"] == "Assign":
                r_ = nf.strip_casts(x["r"])
                if r_["k"] == "Call" and short(r_.get("callee", "") or hirq.show(r_["f"])).endswith("NoHashHasher") and len(r_["args"]) == 1:
                    sites.append((x, r_["args"][0]))
                elif nf.nf(x["l"]) == "self.0":
                    sites.append((x, x["r"]))

        def terms(e, shift=0, env=None, depth=0):
            """[(byte index, shift)] of an or/sum of shifted bytes, or None"""
            e = nf.strip_casts(e)
            k = e["k"]
            if k == "Path" and "local" in e["res"]:
                if env and e["res"]["name"] in env:
                    return None
                d = R.lookup(e["res"]["local"], e)
                return terms(d, shift, env, depth + 1) if d is not None and depth < 8 else None
            if k == "Binary" and e["op"] in ("+", "|", "^"):
                a, b = terms(e["l"], shift, env, depth), terms(e["r"], shift, env, depth)
                return a + b if a is not None and b is not None else None
            if k == "Binary" and e["op"] == "<<":
                sh = nf.strip_casts(e["r"])
                if sh["k"] == "Lit":
                    return terms(e["l"], shift + int(sh["v"]), env, depth)
                return None
            if k == "Index" and nf.nf(e["base"]) == BY:
                i_ = nf.strip_casts(e["idx"])
                if i_["k"] == "Lit":
                    return [(int(i_["v"]), shift)]
                if env and i_["k"] == "Path" and i_["res"].get("name") in env:
                    return [(env[i_["res"]["name"]], shift)]
                return None
            if k == "Call" and nf.strip(e["f"])["k"] == "Path" and "local" in nf.strip(e["f"])["res"] and len(e["args"]) == 1:
                # a local closure |i| bytes[i] as u64
                cl = R.lookup(nf.strip(e["f"])["res"]["local"], e) or (R.defs.get(nf.strip(e["f"])["res"]["local"]) if hasattr(R, "defs") else None)
                a0 = nf.strip_casts(e["args"][0])
                if cl is not None and nf.strip(cl)["k"] == "Closure" and a0["k"] == "Lit" and len(nf.strip(cl)["params"]) == 1:
                    c_ = nf.strip(cl)
                    return terms(c_["body"], shift, {hirq.show_pat(c_["params"][0]): int(a0["v"])}, depth + 1)
                return None
            if k == "Call" and short(e.get("callee", "")) == "from_be_bytes" and len(e["args"]) == 1:
                a0 = nf.strip_casts(e["args"][0])
                for _ in range(4):
                    if a0["k"] == "Path" and "local" in a0["res"] and R.lookup(a0["res"]["local"], a0) is not None:
                        a0 = nf.strip_casts(R.lookup(a0["res"]["local"], a0))
                if a0["k"] == "Array":
                    out_ = []
                    n_ = len(a0["es"])
                    for j_, el in enumerate(a0["es"]):
                        tj = terms(el, shift + 8 * (n_ - 1 - j_), env, depth)
                        if tj is None:
                            return None
                        out_ += tj
                    return out_
                if BY in nf.nf(a0, True) and ("try_into" in nf.nf(a0, True) or "try_from" in nf.nf(a0, True)):
                    return "ALL-BE"
                return None
            if k == "MethodCall" and e["name"] == "fold" and len(e["args"]) == 2 and nf.strip(e["args"][1])["k"] == "Closure":
                src = nf.strip(e["recv"])
                while src["k"] == "MethodCall" and src["name"] in ("iter", "into_iter", "copied", "cloned") and not src["args"]:
                    src = nf.strip(src["recv"])
                cl = nf.strip(e["args"][1])
                if nf.nf(src) == BY and nf.nf(e["args"][0], True) == "0" and len(cl["params"]) == 2:
                    acc, b_ = hirq.show_pat(cl["params"][0]), hirq.show_pat(cl["params"][1]).lstrip("&")
                    body = nf.nf(cl["body"], True).replace(" ", "")
                    if body in ("((%s<<8)|%s)" % (acc, b_), "((%s<<8)+%s)" % (acc, b_), "(%s|(%s<<8))" % (b_, acc), "(%s+(%s<<8))" % (b_, acc)):
                        return "ALL-BE"
                return None
            return None
        for (x, e) in sites:
            n += 1
            tm = terms(e)
            if tm is None:
                ctx.info("%s: `%s` is not one of the byte assemblies the NOHASH evaluator knows; not judged" % (fid, nf.nf(e, True)[:80]))
            elif tm == "ALL-BE":
                ctx.ok("NOHASH", fid, "big-endian assembly of all the bytes (from_be_bytes / fold)", hirq.loc(x))
            else:
                N = len(tm)
                want = sorted((i, 8 * (N - 1 - i)) for i in range(N))
                if N in (4, 8) and sorted(tm) == want:
                    ctx.ok("NOHASH", fid, "%d bytes, bytes[i] << %d - 8i, each once" % (N, 8 * (N - 1)), hirq.loc(x))
                else:
                    ctx.violation("NOHASH", fid, "byte assembly", hirq.loc(x),
                                  "the word is assembled from (byte, shift) %s: expected every byte of 0..%d exactly once at shift 8*(N-1-i) — a byte used twice and another dropped "
                                  "gives equal hashes to distinct items" % (sorted(tm), N))
    ctx.floor("NoHashHasher::write byte assemblies", n, 3)


def skip_rule(ctx, facts, fid):
    """SKIP: a sketch method processes every item: no `return`, `?` or `continue` can leave it before its last register write
    (the tabled early exits of the draw loops are breaks and are classified by EXIT)"""
    fn = facts.fn(fid)
    t = tree_of(fn)
    ws = [w for (w, f, i) in writes_to_self(fn)]
    if not ws:
        return
    lastw = [w for w in ws if not any(_before(fn, w, w2) for w2 in ws if w2 is not w)][0]
    bad = [n for n in user_nodes(fn) if not hirq.from_expansion(n) and _before(fn, n, lastw) and
           (n["k"] == "Ret" or (n["k"] == "Match" and str(n.get("src", "")).startswith("TryDesugar")))]
    # a `continue` inside the draw loop of one item is not a way out of sketch: it is read as nesting of the rest of the
    # iteration (hirq.Tree.conditions), so the guards of the register writes account for it
    if bad:
        for n in bad[:2]:
            ctx.violation("SKIP", fid, "item skipped", hirq.loc(n), "`%s` can leave %s before the item has been offered to the registers (conditions: %s)"
                          % (n["k"].lower() if n["k"] != "Match" else "?", short(fid), nf.all_conditions(t, n)[:2]))
    else:
        ctx.ok("SKIP", fid, "no return / ? before the last register write", hirq.loc(fn))


def deleg_slice(ctx, facts, fid, finisher=None, rule="DELEG"):
    """sketch_slice = optional emptiness rejection, then one unconditional self.sketch(elem) per element,
    then (densified) the tabled finisher; no other effect on self"""
    fn = facts.fn(fid)
    t = tree_of(fn)
    calls = [n for n in user_nodes(fn) if n["k"] == "MethodCall" and n["name"] == "sketch" and nf.nf(n["recv"]) == "self"]
    if len(calls) != 1:
        ctx.violation(rule, fid, "calls of sketch", hirq.loc(fn), "expected exactly one call of self.sketch, found %d" % len(calls))
        return
    c = calls[0]
    loops = t.enclosing_loops(c)
    from ..rulelib import for_loops
    SLICE = hirq.show_pat(fn["params"][1]["pat"])
    # `slice.iter().for_each(|e| self.sketch(e)..)` is the same per-element loop: it cannot be left early, and the closure body
    # plays the part of the loop body
    fe = None
    if not loops:
        for a in t.ancestors(c):
            if a["k"] == "Closure":
                par = t.parent.get(id(a))
                if par is not None and par["k"] == "MethodCall" and par["name"] == "for_each" and len(par["args"]) == 1 and par["args"][0] is a and len(a["params"]) == 1:
                    fe = (par, a)
                break
    if fe is not None:
        fe_call, clo = fe
        it = nf.strip(fe_call["recv"])
        while it["k"] == "MethodCall" and it["name"] in ("iter", "into_iter") and not it["args"]:
            it = nf.strip(it["recv"])
        conds = nf.all_conditions(t, c, stop=clo)
        if conds:
            ctx.violation(rule, fid, "conditional delegation", hirq.loc(c), "self.sketch is only called when %s: some elements are skipped" % (conds[:2],))
            return
        if [x for x in hirq.walk(clo["body"]) if x["k"] == "Ret"] or t.enclosing_loops(fe_call):
            ctx.violation(rule, fid, "early exit", hirq.loc(fe_call), "the per-element closure can be left before self.sketch, or for_each is itself inside a loop")
            return
        if nf.nf(it) != SLICE or nf.nf(c["args"][0]) != hirq.show_pat(clo["params"][0]):
            ctx.violation(rule, fid, "element argument", hirq.loc(c), "for_each must range over the whole input slice and pass each element unchanged; found iter `%s`, arg `%s`" % (nf.nf(it), nf.nf(c["args"][0])))
            return
        # the for_each statement itself may only be guarded by the non-emptiness of the slice (the other branch reports it)
        L = "%s.len()" % SLICE
        nonempty = [("cmp", "0", "<", L), ("cmp", "0", "!=", L), ("cmp", "1", "<=", L), ("truth", "%s.is_empty()" % SLICE, False)]
        outer = [c_ for c_ in nf.all_conditions(t, fe_call, res=resolver_of(fn)) if not (isinstance(c_, (list, tuple)) and all(isinstance(y_, (str, bool)) for y_ in c_) and tuple(c_) in nonempty)]
        if outer:
            ctx.violation(rule, fid, "conditional delegation", hirq.loc(fe_call), "the per-element pass only runs when %s" % (outer[:2],))
            return
        fl = [{"match": fe_call}]
    else:
        if len(loops) != 1 or loops[0]["src"] != "ForLoop":
            ctx.violation(rule, fid, "loop nesting", hirq.loc(c), "self.sketch must be called in exactly one for loop over the slice (or slice.iter().for_each)")
            return
        conds = nf.all_conditions(t, c, stop=loops[0])
        if conds:
            ctx.violation(rule, fid, "conditional delegation", hirq.loc(c), "self.sketch is only called when %s: some elements are skipped" % (conds[:2],))
            return
        for (kind, node) in loop_exits(fn, loops[0]):
            if kind != "iterator-exhausted":
                ctx.violation(rule, fid, "early exit", hirq.loc(node), "the per-element loop can be left early by %s" % kind)
                return
        fl = [f for f in for_loops(fn) if f["loop"] is loops[0]]
        if not fl or nf.nf(fl[0]["iter"]) != SLICE or nf.nf(c["args"][0]) != hirq.show_pat(fl[0]["pat"]):
            ctx.violation(rule, fid, "element argument", hirq.loc(c), "the loop must range over the whole input slice and pass each element unchanged; found iter `%s`, arg `%s`"
                          % (nf.nf(fl[0]["iter"]) if fl else "?", nf.nf(c["args"][0])))
            return
    allowed_mut = {id(c)}
    if finisher:
        fcalls = [n for n in user_nodes(fn) if n["k"] == "MethodCall" and n["name"] == finisher and nf.nf(n["recv"]) == "self"]
        # the public finishing entry point (checked by IDEMPOTENT/EMPTY: it runs the finisher once when bins are empty and
        # reports its failure) may be called instead of the finisher itself
        via = [n for n in user_nodes(fn) if n["k"] == "MethodCall" and n["name"] == "end_sketch" and nf.nf(n["recv"]) == "self" and not n["args"]]
        wrapped = False
        if not fcalls and len(via) == 1:
            fcalls = via
            wrapped = True
        if len(fcalls) != 1:
            ctx.violation(rule, fid, "finisher", hirq.loc(fn), "expected exactly one call of self.%s after the loop, found %d" % (finisher, len(fcalls)))
            return
        fc = fcalls[0]
        fconds = nf.all_conditions(t, fc)
        fother = [c_ for c_ in fconds if c_ not in (("cmp", "0", "<", "self.nb_empty"), ("cmp", "0", "!=", "self.nb_empty"))]
        if t.enclosing_loops(fc) or fother:
            ctx.violation(rule, fid, "finisher guard", hirq.loc(fc), "self.%s must run once after the loop whenever bins are empty; found conditions %s" % (finisher, fconds))
            return
        if not _before(fn, fl[0]["match"], fc):
            ctx.violation(rule, fid, "finisher order", hirq.loc(fc), "the finisher must come after the per-element loop")
            return
        # nothing but a rejection (`return Err(..)`) may leave the function before the finisher has run
        for x in user_nodes(fn):
            if x["k"] == "Ret" and _before(fn, x, fc) and not t.contains(fc, x):
                val = hirq.show(x["e"])[:40] if "e" in x else ""
                if "Err" not in val:
                    ctx.violation(rule, fid, "return before the finisher", hirq.loc(x),
                                  "`return %s` leaves %s before self.%s has run (taken when %s): a sketch with empty bins is handed back as finished" % (val, short(fid), finisher, nf.control_facts(t, x)[:1]))
                    return
        allowed_mut.add(id(fc))
        from . import C09 as _C09
        if not wrapped:
            _C09.report_checked(ctx, fn, fid, fc)
    others = [n for (n, _k) in mutating_self_calls(fn) if id(n) not in allowed_mut]
    ws = writes_to_self(fn)
    if others or ws:
        x = (others + [w[0] for w in ws])[0]
        ctx.violation(rule, fid, "extra effect on self", hirq.loc(x), "sketch_slice also does `%s`" % hirq.show(x)[:70])
        return
    # a return before the loop must not follow any effect (there are none) — fine
    ctx.ok(rule, fid, "one unconditional self.sketch(elem) per element%s, no other effect" % (" + self.%s() when nb_empty > 0" % finisher if finisher else ""), hirq.loc(c))


def run(ctx, facts):
    for k, v in RULES.items():
        ctx.rule(k, v)
    ctx.extra["explanation"] = (
        "Structural clauses of C04 on the five unweighted sketchers: guarded improving register writes, provenance of written "
        "values, seed provenance, legitimacy of early exits, the item_rank counter, per-item permutation reset, pure delegation "
        "of sketch_slice, paired stored hashes, and order-insensitive tie-breaking of payload registers.")
    ctx.not_decided[:] = ["that a_upper really is the largest occupied level as an array invariant over all histories (its update shape is checked: HISTO)"]
    has2 = facts.has(SMH2 + "sketch")
    table = {k: v for k, v in SEED_TABLE.items() if facts.has(k)}
    n = check_seeds(ctx, facts, "SEED", table)
    ctx.floor("C04 SEED sites", n, 7 if has2 else 6)
    g = _smh(ctx, facts)
    if has2:
        g += _smh2(ctx, facts)
    g += _setsketch(ctx, facts)
    g += _dens_sketch(ctx, facts, OD)
    g += _dens_sketch(ctx, facts, RD)
    ctx.floor("C04 guarded register writes", g, 10 if has2 else 6)
    e = _exit_aupper(ctx, facts, SMH + "sketch")
    if has2:
        e += _exit_aupper(ctx, facts, SMH2 + "sketch")
    e += _exit_setsketch(ctx, facts)
    ctx.floor("C04 loop exits", e, 4 if has2 else 3)
    _histo(ctx, facts, SMH + "sketch", "smh")
    if has2:
        _histo(ctx, facts, SMH2 + "sketch", "smh2")
    ctx.rule("DRAWSEQ", "inside the draw loop of one item every draw on the item's generator is made on every iteration (no `if`, no earlier "
                        "`continue`): the values an item offers do not depend on what was sketched before it")
    nd = 0
    for fid in [SMH + "sketch", SS + "sketch", OD + "sketch", RD + "sketch"] + ([SMH2 + "sketch"] if has2 else []):
        skip_rule(ctx, facts, fid)
        nd += drawseq_rule(ctx, facts, fid)
    ctx.floor("C04 draws inside draw loops", nd, 4)
    nohash_rule(ctx, facts)
    # the densified sketchers finish by copying populated bins into empty ones: which bin an empty bin copies from must be
    # decided by a probe sequence keyed by the bin alone over the occupancy flags (the rules of C09), or the result depends
    # on the order of arrival
    from . import C09 as _C09d
    for k_ in ("DENS-target", "DENS-source", "DENS-SEED", "PAIR", "BOOKKEEPING", "EMPTY"):
        ctx.rule(k_, _C09d.RULES[k_])
    for prefix in (OD, RD):
        _C09d.dens_rules(ctx, facts, prefix)
        _C09d.dens_seed(ctx, facts, prefix)
        _C09d.bookkeeping(ctx, facts, prefix)
        _C09d.empty_guard(ctx, facts, prefix)
    # SetSketch prunes draws against lower_k: a bound above some register makes the registers depend on the order of arrival
    from . import C05 as _C05
    ctx.rule("LOWER", _C05.RULES["LOWER"])
    _C05.lower_rules(ctx, facts)
    # reuse after reinit is part of "any chunking of the stream over several calls" in practice: reset == new for the five sketchers
    from . import C13 as _C13
    _C13.require_verified_reset(ctx, facts, [x for x in (_C13.SMH, _C13.SMH2, _C13.SS, _C13.OD, _C13.RD)], "REINIT")
    _counter(ctx, facts)
    from . import C13
    C13.require_verified_reset(ctx, facts, [C13.FY], "RESETBEFORE")
    if has2:
        _resetbefore(ctx, facts, SMH2 + "sketch")
    _resetbefore(ctx, facts, SS + "sketch")
    for fid in [SMH + "sketch_slice", SS + "sketch_slice"] + ([SMH2 + "sketch_slice"] if has2 else []):
        deleg_slice(ctx, facts, fid)
    for fid in [OD + "sketch_slice", RD + "sketch_slice"]:
        deleg_slice(ctx, facts, fid, finisher="densify")
    # no other function writes the registers (outside new / reinit / densify)
    regs = {SMH: ["hsketch"], SMH2: ["hsketch", "values", "l"], SS: ["k_vec"], OD: ["hsketch", "values"], RD: ["hsketch", "values"]}
    okw = {SMH: ["new", "reinit", "sketch"], SMH2: ["new", "reinit", "sketch"], SS: ["new", "default", "reinit", "sketch", "merge"],
           OD: ["new", "reinit", "sketch", "densify"], RD: ["new", "reinit", "sketch", "densify"]}
    for prefix, fields in regs.items():
        for fid, fn in facts.fns.items():
            if "hir" not in fn or not fid.startswith(prefix) or short(fid) in okw[prefix]:
                continue
            from .. import inline
            if inline.absorbed(facts, fid):
                continue     # a new private helper whose every call was inlined: its writes are judged in its callers
            for fld in fields:
                for (w, _f, _i) in writes_to_self(fn, fld):
                    ctx.violation("GUARD", fid, "register %s written outside the sketching path" % fld, hirq.loc(w), "%s writes self.%s: %s" % (fid, fld, hirq.show(w)[:60]))
                for m in self_method_calls(fn, fld):
                    if m.get("recv_ty", "").startswith("&mut "):
                        ctx.violation("GUARD", fid, "register %s mutated outside the sketching path" % fld, hirq.loc(m), "%s mutates self.%s: %s" % (fid, fld, hirq.show(m)[:60]))
