"""C19 — invertible integer hashes are bijections with the given inverses (proof for all inputs)."""
from .. import inv, hirq
from ..engine import AnalysisError

PAIRS = [
    (64, "invhash::int64_hash", "invhash::int64_hash_inverse"),
    (32, "invhash::int32_hash", "invhash::int32_hash_inverse"),
]

EXPLANATION = (
    "Each of the four functions is interpreted, statement by statement from its type-checked HIR, in two exact "
    "abstract domains: affine maps x -> a*x+c mod 2^w (closed under wrapping_add/sub/mul by constants, <<, !) and "
    "GF(2)-affine maps given by a w x w bit matrix (closed under ^, <<, >>, !, rotates). A function becomes a list "
    "of segments alternating between the domains. Obligations per width: (i) every segment of the hash is a "
    "bijection (odd multiplier / full rank); (ii) inverse o hash: the concatenated segment list cancels to the "
    "identity by exact integer / bit-matrix composition; (iii) hash o inverse likewise. This covers all 2^32 and "
    "2^64 inputs. Any statement outside the exact transfer functions is reported as cannot-establish.")


def run(ctx, facts):
    ctx.rule("INV", EXPLANATION)
    ctx.level = "proof"
    if ctx.obligations is None:
        ctx.obligations = []
    ctx.extra["explanation"] = EXPLANATION
    ctx.extra["trusted_base"] = [
        "rustc name resolution / type check and the driver's HIR serialisation",
        "the transfer functions in pmh/inv.py (wrapping_add/sub/mul, <<, >>, ^, !, rotate) and Python integers",
        "u32/u64 method semantics of core (wrapping arithmetic is mod 2^w)",
    ]
    ctx.extra["checker_cmd"] = "bin/pmhcheck C19"
    seg_counts = {}
    for (w, hname, iname) in PAIRS:
        hf, jf = facts.fn(hname), facts.fn(iname)
        ctx.fn_seen(hname)
        ctx.fn_seen(iname)
        segs = {}
        bad = False
        for (nm, f) in ((hname, hf), (iname, jf)):
            ty = "u%d" % w
            if f["ret"] != ty or len(f["params"]) != 1 or f["params"][0]["ty"] != ty:
                raise AnalysisError("%s does not have the signature fn(%s) -> %s" % (nm, ty, ty))
            try:
                segs[nm] = inv.segments_of(f, w)
            except inv.Top as t:
                where = hirq.loc(t.node) if t.node is not None else hirq.loc(f)
                ctx.violation("INV", nm, "cannot-establish", where, "no exact abstract value: %s" % t)
                bad = True
        if bad:
            ctx.obligations.append(("w=%d all obligations" % w, False, "a function could not be interpreted exactly"))
            continue
        hs, js = segs[hname], segs[iname]
        seg_counts[str(w)] = {"hash": len(hs), "inverse": len(js)}
        # (i) bijection
        nb = [i for i, (v, _l) in enumerate(hs) if not inv.is_bijection(v, w)]
        if nb:
            v, l = hs[nb[0]]
            ctx.violation("INV", hname, "segment-not-bijective", l,
                          "segment %d of %s is not a bijection: %s" % (nb[0], hname, inv.describe(v, w)))
        else:
            ctx.ok("INV", hname, "bijection: %d segments, every affine multiplier odd / every GF(2) matrix full rank" % len(hs), hirq.loc(hf))
        ctx.obligations.append(("w=%d (i) %s is a bijection" % (w, hname), not nb,
                                "; ".join(inv.describe(v, w) for v, _ in hs)))
        # (ii), (iii)
        for (tag, first, second, fn1, fn2) in (("(ii) inverse o hash = id", hs, js, hname, iname),
                                                ("(iii) hash o inverse = id", js, hs, iname, hname)):
            rest = inv.cancel([v for v, _ in first] + [v for v, _ in second], w)
            okk = not rest
            if okk:
                ctx.ok("INV", fn2, "%s: %d+%d segments cancel to the identity" % (tag, len(first), len(second)), hirq.loc(facts.fn(fn2)))
            else:
                # name the innermost non-cancelling pair: recompute from the middle
                k = 0
                while k < min(len(first), len(second)):
                    c = inv.compose(second[k][0], first[len(first) - 1 - k][0], w)
                    if not c or not inv.is_identity(c, w):
                        break
                    k += 1
                if k < min(len(first), len(second)):
                    a_v, a_l = first[len(first) - 1 - k]
                    b_v, b_l = second[k]
                    c = inv.compose(b_v, a_v, w)
                    msg = ("segment ending at %s of %s composed with segment ending at %s of %s is not the identity: %s"
                           % (a_l, fn1, b_l, fn2, inv.describe(c, w) if c else "different domains (%s then %s)" % (inv.describe(a_v, w), inv.describe(b_v, w))))
                    where = b_l
                else:
                    msg = "segment lists of different length do not cancel (%d vs %d)" % (len(first), len(second))
                    where = hirq.loc(facts.fn(fn2))
                ctx.violation("INV", fn2, "w%d %s" % (w, tag.split()[0]), where, msg)
            ctx.obligations.append(("w=%d %s" % (w, tag), okk, "%d remaining segment(s) after cancellation" % len(rest)))
    ctx.extra["segments"] = seg_counts
    ctx.floor("INV function pairs", len(seg_counts), 2) if not ctx.violations else None
