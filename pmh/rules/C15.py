"""C15 — the max tracker: structural clauses only (accessor shapes, the update step, slots only decrease, reset == new)."""
from .. import hirq, nf
from ..rulelib import tree_of, user_nodes, writes_to_self, def_exprs, loop_exits, resolver_of
from . import C13

MT = "maxvaluetrack::MaxValueTracker::<V>::"

RULES = {
    "TRACKERSHAPE": "get_max_value returns values[last_index]; is_update_possible(v) returns v < values[last_index] (strict, value on the "
                    "left); get_value(k) returns values[k]",
    "TREE-STEP": "update writes only values[current_k] = current_value, starting at the leaf k with the offered value and only if it is "
                 "strictly smaller than the slot (slots only decrease); each step moves to the parent m + current_k/2 carrying "
                 "max(current value, sibling value) with sibling = current_k ^ 1; the walk ends only at the root, when the parent "
                 "already equals both children, or when the parent would not decrease",
    "RESET": "MaxValueTracker (new, reset) is a verified pair: every node is refilled with the type maximum",
    "LAYOUT": "new allocates 2m-1 nodes and last_index = 2m-2 (the root)",
}


def accessor_nf(facts, name, depth=0):
    """normal form of a tracker accessor's body with immutable locals resolved and calls of sibling accessors on self replaced
    by their own bodies (so `get_max_value` written as `self.get_value(self.last_index)` is `self.values[self.last_index]`)"""
    import re as _re
    f = facts.fn(MT + name)
    R = resolver_of(f)
    body = f["hir"]
    e = body["expr"] if body["k"] == "Block" and "expr" in body and all(st["k"] == "Let" or hirq.in_log_macro(st) for st in body["stmts"]) else body
    s_ = nf.nf(e, res=R).strip()
    if s_.startswith("{") and s_.endswith("}"):
        s_ = s_[1:-1].strip()
    if depth < 3:
        def rep(m_):
            callee = m_.group(1)
            arg = m_.group(2)
            g = facts.fns.get(MT + callee)
            if g is None or "hir" not in g or callee == name:
                return m_.group(0)
            inner = accessor_nf(facts, callee, depth + 1)
            ps = [hirq.show_pat(p_["pat"]) for p_ in g["params"][1:]]
            if len(ps) == 1 and arg:
                inner = _re.sub(r"\b%s\b" % _re.escape(ps[0]), arg, inner)
            elif ps or arg:
                return m_.group(0)
            return inner
        s_ = _re.sub(r"self\.(get_value|get_max_value)\(([^()]*)\)", rep, s_)
    return s_


def accessor_shapes(ctx, facts, rule="TRACKERSHAPE", names=("get_max_value", "is_update_possible", "get_value")):
    shapes = {"get_max_value": "self.values[self.last_index]", "is_update_possible": "(value < self.values[self.last_index])", "get_value": "self.values[slot]"}
    for name in names:
        want = shapes[name]
        f = facts.fn(MT + name)
        got = accessor_nf(facts, name)
        if name == "is_update_possible":
            want = want.replace("value", hirq.show_pat(f["params"][1]["pat"]))
        if name == "get_value":
            want = want.replace("slot", hirq.show_pat(f["params"][1]["pat"]))
        if got.replace(" ", "") == want.replace(" ", ""):
            ctx.ok(rule, MT + name, got, hirq.loc(f))
        else:
            ctx.violation(rule, MT + name, "accessor shape", hirq.loc(f), "expected %s, found %s" % (want, got[:100]))


def tree_step(ctx, facts, rule="TREE-STEP"):
    fid = MT + "update"
    fn = facts.fn(fid)
    t = tree_of(fn)
    where = hirq.loc(fn)
    loops = [n for n in t.nodes if n["k"] == "Loop" and not hirq.in_log_macro(n)]
    if len(loops) != 1:
        ctx.violation(rule, fid, "cannot-establish: loop structure", where, "expected exactly one propagation loop, found %d" % len(loops))
        return
    loop = loops[0]
    R = resolver_of(fn)
    D = lambda v: [nf.nf(e, True, res=R) for e in def_exprs(fn, v)]
    problems = []
    P_K = hirq.show_pat(fn["params"][1]["pat"])
    P_V = hirq.show_pat(fn["params"][2]["pat"])
    # 1 the only store: values[K] = V, K and V the walk variables
    ws = writes_to_self(fn)
    K = V = MORE = None
    if len(ws) == 1 and ws[0][0]["k"] == "Assign" and ws[0][1] == "values" and t.contains(loop, ws[0][0]):
        K, V = nf.nf(ws[0][2][0], True), nf.nf(ws[0][0]["r"], True)
    import re as _re
    if K is None or not _re.match(r"^\w+$", K) or not _re.match(r"^\w+$", V):
        ctx.violation(rule, fid, "store", where, "the only store must be `self.values[<walk index>] = <carried value>` inside the loop; found %s" % [nf.nf(w[0], True)[:50] for w in ws])
        return
    wc = nf.all_conditions(t, ws[0][0], stop=None)
    guards = [c for c in wc if c[0] == "truth" and c[2] is True and _re.match(r"^\w+$", c[1])]
    MORE = guards[0][1] if guards else None
    flagless = MORE is None and not nf.all_conditions(t, ws[0][0], stop=loop)
    if not flagless and (MORE is None or [c for c in wc if c != ("truth", MORE, True)]):
        problems.append(("store", "the store is conditional on %s" % wc))
    PARENT = {"((%s / 2) + self.m)" % K, "(self.m + (%s / 2))" % K, "((%s >> 1) + self.m)" % K}
    SIB = {"self.values[(1 ^ %s)]" % K, "self.values[(%s ^ 1)]" % K}
    # 2 walk: K = k, then K = parent(K)
    dk = D(K)
    if not (len(dk) == 2 and dk[0] == P_K and dk[1] in PARENT):
        problems.append(("walk", "the walk index is defined by %s, expected the slot and then self.m + index / 2" % dk))
    # 3 value carried upward = max(current, sibling)
    dv = D(V)
    # the same step as one value: `V = if V < sibling { sibling } else { V }` (possibly through a private helper, inlined)
    MAXIF = set()
    for sb in SIB:
        for op in ("<", "<="):
            MAXIF.add("if (%s %s %s) {%s} else {%s}" % (V, op, sb, sb, V))
            MAXIF.add("if (%s %s %s) {%s} else {%s}" % (sb, op, V, V, sb))
    canon_ = lambda x_: _re.sub(r"\s+", " ", x_.replace("{ ", "{").replace(" }", "}"))
    if len(dv) == 2 and dv[0] == P_V and canon_(dv[1]) in {canon_(m_) for m_ in MAXIF}:
        pass
    elif not (len(dv) == 2 and dv[0] == P_V and dv[1] in SIB):
        problems.append(("carried value", "the carried value is defined by %s, expected the offered value and then the sibling's value self.values[index ^ 1]" % dv))
    else:
        for n in user_nodes(fn):
            if n["k"] == "Assign" and nf.nf(n["l"]) == V:
                c = nf.all_conditions(t, n, stop=loop, res=R)
                if not any(x[0] == "cmp" and x[1] == V and x[2] in ("<", "<=") and x[3] in SIB for x in c):
                    problems.append(("carried value", "the carried value takes the sibling's value when %s, expected when it is smaller than the sibling (max of the two children)" % nf.all_conditions(t, n, stop=loop)[:1]))
    # 4 start: only if strictly smaller than the slot
    mores = [(nf.nf(n["r"]), nf.all_conditions(t, n, stop=loop if t.contains(loop, n) else None, res=R)) for n in user_nodes(fn) if n["k"] == "Assign" and nf.nf(n["l"]) == MORE]
    init = [nf.nf(e, True) for e in def_exprs(fn, MORE)][:1] if MORE else []
    trues = [c for (v, c) in mores if v == "true"]
    direct = init == ["(%s < self.values[%s])" % (V, K)] and not trues          # let mut more = value < values[k];
    classic = init == ["false"] and len(trues) == 1 and trues[0][:1] == [("cmp", V, "<", "self.values[%s]" % K)]
    if flagless:
        # no flag: the loop is entered only past a guard clause `if !(value < values[k]) { return }` (or inside `if value < values[k]`)
        entry = nf.control_facts(t, loop, res=R)
        kinit = dk[0] if dk else K
        if not any(c_[0] == "cmp" and c_[2] == "<" and c_[1] in (V, P_V) and c_[3] in ("self.values[%s]" % K, "self.values[%s]" % kinit) for c_ in entry):
            problems.append(("start", "the walk loop is not entered under `value < values[k]` (strict: slots only decrease); it is entered under %s" % entry[:2]))
    elif not (direct or classic):
        problems.append(("start", "the walk must start exactly when value < values[k] (strict: slots only decrease); the flag starts as %s and is set when %s" % (init, trues)))
    falses = [c for (v, c) in mores if v == "false"]
    for c in falses:
        if c[:1] not in ([("cmp", "self.values[%s]" % K, "<=", V)], [("cmp", "self.values[%s]" % K, "<", V)]):
            problems.append(("stop", "the walk stops when %s, expected when the carried value is not below the parent" % c[:1]))
    # 5 exits
    for (kind, node) in loop_exits(fn, loop):
        c = nf.all_conditions(t, node, stop=loop, res=R)
        c = [x for x in c if x != ("truth", MORE, True)]
        shown = nf.all_conditions(t, node, stop=loop)
        if kind == "guard":
            if c != [("truth", MORE, False)]:
                problems.append(("exit", "loop guard is %s, expected the walk flag" % shown))
        elif kind == "break":
            root = len(c) >= 1 and c[0][0] == "cmp" and c[0][1] == "self.last_index" and c[0][2] == "<" and c[0][3] in PARENT
            equal = len(c) == 2 and all(x[0] == "cmp" and x[2] == "<=" and x[1] in {"self.values[%s]" % p_ for p_ in PARENT} for x in c) and \
                {x[3] for x in c} in ({"self.values[%s]" % K} | {s_} for s_ in SIB)
            # without a flag, `if carried >= values[parent] { break }` after the move to the parent is the ordinary end of the walk
            stop_ = flagless and c in ([("cmp", "self.values[%s]" % K, "<=", V)], [("cmp", "self.values[%s]" % K, "<", V)])
            if not (root or equal or stop_):
                problems.append(("exit", "the walk is abandoned when %s: only 'parent beyond the root' or 'parent equals both children' may end it early" % shown[:2]))
        else:
            problems.append(("exit", "the walk is left by %s" % kind))
    if problems:
        for (what, msg) in problems:
            ctx.violation(rule, fid, what, where, msg)
    else:
        ctx.ok(rule, fid, "leaf write iff value < slot; parent = m + k/2, sibling = k ^ 1; carries max(child, sibling); exits: root / parent equals both children / parent not decreased", where)


def layout(ctx, facts):
    fn = facts.fn(MT + "new")
    R = resolver_of(fn)
    M = hirq.show_pat(fn["params"][0]["pat"])
    fields = {f["name"]: f["e"] for x in hirq.walk(fn["hir"]) if x["k"] == "Struct" for f in x["fields"]}
    li = [nf.nf(fields["last_index"], True, res=R)] if "last_index" in fields else []
    vals = nf.nf(fields["values"], True, res=R) if "values" in fields else ""
    vl = [vals]
    LI = {"((%s << 1) - 2)" % M, "((2 * %s) - 2)" % M, "((%s * 2) - 2)" % M}
    from .. import reset as _reset
    sp = _reset.spec_of_expr(fields["values"], fn, []) if "values" in fields else None
    size = sp.size if sp is not None and sp.kind == "fill" else None      # (0..n).map(..).collect(), vec![c; n], push loop …
    vl = [vals, "InitSpec %s" % sp]
    if li and li[0] in LI and (any(("end:(1 + %s)}" % x) in vals or ("end:(%s + 1)}" % x) in vals for x in LI)
                               or size in {"(1 + %s)" % x for x in LI} | {"(%s + 1)" % x for x in LI}):
        ctx.ok("LAYOUT", MT + "new", "last_index = 2m - 2, 2m - 1 nodes", hirq.loc(fn))
    else:
        ctx.violation("LAYOUT", MT + "new", "node layout", hirq.loc(fn), "last_index = %s, vlen = %s; expected 2m-2 and last_index+1" % (li, vl))


def sentinel_rule(ctx, facts):
    """SENTINEL: the value of a slot nobody wrote is the maximum of ITS OWN type: every impl of MaxValue::get_max for T returns T::MAX
    (or T::INFINITY / Bounded::max_value() for T). A smaller sentinel refuses every offered value between it and T::MAX."""
    import re as _re
    ctx.rule("SENTINEL", "every `impl MaxValue for T` returns the maximum of T itself from get_max (T::MAX, T::INFINITY or T's Bounded::max_value): "
                         "an empty slot must compare above every value that can be offered")
    n = 0
    for fid, fn in facts.fns.items():
        m_ = _re.match(r"^<(\w+) as maxvaluetrack::MaxValue>::get_max$", fid)
        if not m_ or "hir" not in fn:
            continue
        n += 1
        ty = m_.group(1)
        R = resolver_of(fn)
        body = fn["hir"]
        e = body["expr"] if body["k"] == "Block" and "expr" in body and not [s_ for s_ in body["stmts"] if s_["k"] != "Let"] else body
        v = nf.nf(e, True, res=R)      # an identity cast (`f32::MAX as f32`) is dropped; a widening one leaves the narrower type's constant
        ok = _re.match(r"^core::(num|f32|f64)::<impl %s>::(MAX|INFINITY)$" % ty, v) or v in ("std::%s::MAX" % ty, "core::%s::MAX" % ty, "std::%s::INFINITY" % ty) \
            or _re.match(r"^(<%s as )?num(_traits)?::(bounds::)?Bounded(>)?::max_value\(\)$" % ty, v)
        if ok:
            ctx.ok("SENTINEL", fid, "get_max() = %s" % v, hirq.loc(fn))
        else:
            ctx.violation("SENTINEL", fid, "empty-slot value", hirq.loc(fn),
                          "`impl MaxValue for %s` returns `%s`, expected %s::MAX: values between the two offered to an empty slot are refused" % (ty, v[:80], ty))
    ctx.floor("C15 MaxValue impls", n, 7)


def run(ctx, facts):
    for k, v in RULES.items():
        ctx.rule(k, v)
    sentinel_rule(ctx, facts)
    ctx.extra["explanation"] = (
        "C15 as a whole is an inductive invariant over array contents and is NOT proved. Decided are its structural clauses, each a "
        "necessary condition: the accessor shapes, the shape of one propagation step of update (leaf write only if strictly smaller; "
        "parent receives max(child, sibling); legitimate ends of the walk), the node layout, and reset == new. A pass does not "
        "establish that the invariant holds for all update sequences.")
    ctx.not_decided[:] = ["the inductive invariant 'every internal node equals the max of its children after any update sequence'",
                          "index arithmetic for non-power-of-two m (that parent/sibling indices stay within the array and form a tree)"]
    accessor_shapes(ctx, facts)
    tree_step(ctx, facts)
    layout(ctx, facts)
    analyzers, verified = {}, {}
    C13.check_struct(ctx, facts, C13.MVT, analyzers, verified)
