"""C15 — the max tracker: structural clauses only (accessor shapes, the update step, slots only decrease, reset == new)."""
from .. import hirq, nf
from ..rulelib import tree_of, user_nodes, writes_to_self, def_exprs, loop_exits
from . import C13

MT = "maxvaluetrack::MaxValueTracker::<V>::"

RULES = {
    "TRACKERSHAPE": "get_max_value returns values[last_index]; is_update_possible(v) returns v < values[last_index] (strict, value on the "
                    "left); get_value(k) returns values[k]",
    "TREE-STEP": "update writes only values[current_k] = current_value, starting at the leaf k with the offered value and only if it is "
                 "strictly smaller than the slot (slots only decrease); each step moves to the parent m + current_k/2 carrying "
                 "max(current value, sibling value) with sibling = current_k ^ 1; the walk ends only at the root, when the parent "
                 "already equals both children, or when the parent would not decrease",
    "RESET": "MaxValueTracker (new, reset) is a verified pair: every node is refilled with the type maximum",
    "LAYOUT": "new allocates 2m-1 nodes and last_index = 2m-2 (the root)",
}


def accessor_shapes(ctx, facts, rule="TRACKERSHAPE"):
    shapes = {"get_max_value": "self.values[self.last_index]", "is_update_possible": "(value < self.values[self.last_index])", "get_value": "self.values[slot]"}
    for name, want in shapes.items():
        f = facts.fn(MT + name)
        got = nf.nf(f["hir"]).strip("{}")
        if got.replace(" ", "") == want.replace(" ", ""):
            ctx.ok(rule, MT + name, got, hirq.loc(f))
        else:
            ctx.violation(rule, MT + name, "accessor shape", hirq.loc(f), "expected %s, found %s" % (want, got[:100]))


def tree_step(ctx, facts, rule="TREE-STEP"):
    fid = MT + "update"
    fn = facts.fn(fid)
    t = tree_of(fn)
    where = hirq.loc(fn)
    loops = [n for n in t.nodes if n["k"] == "Loop" and not hirq.in_log_macro(n)]
    if len(loops) != 1:
        ctx.violation(rule, fid, "cannot-establish: loop structure", where, "expected exactly one propagation loop, found %d" % len(loops))
        return
    loop = loops[0]
    D = lambda v: [nf.nf(e, True) for e in def_exprs(fn, v)]
    problems = []
    # 1 the only store
    ws = writes_to_self(fn)
    if len(ws) != 1 or nf.nf(ws[0][0], True) != "self.values[current_k] = current_value" or not t.contains(loop, ws[0][0]):
        problems.append(("store", "the only store must be `self.values[current_k] = current_value` inside the loop; found %s" % [nf.nf(w[0], True)[:50] for w in ws]))
    else:
        wc = nf.all_conditions(t, ws[0][0], stop=None)
        if [c for c in wc if c != ("truth", "more", True)]:
            problems.append(("store", "the store is conditional on %s" % wc))
    # 2 indices
    if D("pidx") not in (["((current_k / 2) + self.m)"], ["(self.m + (current_k / 2))"], ["((current_k >> 1) + self.m)"]):
        problems.append(("parent index", "pidx = %s, expected self.m + current_k / 2" % D("pidx")))
    if D("siblidx") not in (["(1 ^ current_k)"], ["(current_k ^ 1)"]):
        problems.append(("sibling index", "siblidx = %s, expected current_k ^ 1" % D("siblidx")))
    # 3 value carried upward = max(current, sibling)
    if D("current_value") != ["value", "self.values[siblidx]"]:
        problems.append(("carried value", "current_value is defined by %s, expected the offered value and then self.values[siblidx]" % D("current_value")))
    else:
        for n in user_nodes(fn):
            if n["k"] == "Assign" and nf.nf(n["l"]) == "current_value":
                c = nf.all_conditions(t, n, stop=loop)
                if ("cmp", "current_value", "<", "self.values[siblidx]") not in c and ("cmp", "current_value", "<=", "self.values[siblidx]") not in c:
                    problems.append(("carried value", "current_value takes the sibling's value when %s, expected when current_value < sibling (max of the two children)" % c[:1]))
    if D("current_k") != ["k", "pidx"]:
        problems.append(("walk", "current_k is defined by %s, expected k and then pidx" % D("current_k")))
    # 4 start: only if strictly smaller than the slot
    mores = [(nf.nf(n["r"]), nf.all_conditions(t, n, stop=loop if t.contains(loop, n) else None)) for n in user_nodes(fn) if n["k"] == "Assign" and nf.nf(n["l"]) == "more"]
    init = [nf.nf(e) for e in def_exprs(fn, "more")][:1]
    if init != ["false"]:
        problems.append(("start", "`more` must start false"))
    trues = [c for (v, c) in mores if v == "true"]
    if len(trues) != 1 or trues[0][:1] != [("cmp", "current_value", "<", "self.values[current_k]")]:
        problems.append(("start", "the walk must start exactly when value < values[k] (strict: slots only decrease); found %s" % trues))
    falses = [c for (v, c) in mores if v == "false"]
    for c in falses:
        if c[:1] not in ([("cmp", "self.values[current_k]", "<=", "current_value")], [("cmp", "self.values[current_k]", "<", "current_value")]):
            problems.append(("stop", "the walk stops when %s, expected when the carried value is not below the parent" % c[:1]))
    # 5 exits
    for (kind, node) in loop_exits(fn, loop):
        c = nf.all_conditions(t, node, stop=loop)
        c = [x for x in c if x != ("truth", "more", True)]
        if kind == "guard":
            if c != [("truth", "more", False)]:
                problems.append(("exit", "loop guard is %s, expected `more`" % c))
        elif kind == "break":
            root = c[:1] == [("cmp", "self.last_index", "<", "pidx")]
            equal = set(c) == {("cmp", "self.values[pidx]", "<=", "self.values[siblidx]"), ("cmp", "self.values[pidx]", "<=", "self.values[current_k]")}
            if not (root or equal):
                problems.append(("exit", "the walk is abandoned when %s: only 'parent beyond the root' or 'parent equals both children' may end it early" % c[:2]))
        else:
            problems.append(("exit", "the walk is left by %s" % kind))
    if problems:
        for (what, msg) in problems:
            ctx.violation(rule, fid, what, where, msg)
    else:
        ctx.ok(rule, fid, "leaf write iff value < slot; parent = m + k/2, sibling = k ^ 1; carries max(child, sibling); exits: root / parent equals both children / parent not decreased", where)


def layout(ctx, facts):
    fn = facts.fn(MT + "new")
    li = [nf.nf(e, True) for e in def_exprs(fn, "last_index")]
    vl = [nf.nf(e, True) for e in def_exprs(fn, "vlen")]
    if li in (["((m << 1) - 2)"], ["((2 * m) - 2)"], ["((m * 2) - 2)"]) and vl in (["(1 + last_index)"], ["(last_index + 1)"]):
        ctx.ok("LAYOUT", MT + "new", "last_index = 2m - 2, 2m - 1 nodes", hirq.loc(fn))
    else:
        ctx.violation("LAYOUT", MT + "new", "node layout", hirq.loc(fn), "last_index = %s, vlen = %s; expected 2m-2 and last_index+1" % (li, vl))


def run(ctx, facts):
    for k, v in RULES.items():
        ctx.rule(k, v)
    ctx.extra["explanation"] = (
        "C15 as a whole is an inductive invariant over array contents and is NOT proved. Decided are its structural clauses, each a "
        "necessary condition: the accessor shapes, the shape of one propagation step of update (leaf write only if strictly smaller; "
        "parent receives max(child, sibling); legitimate ends of the walk), the node layout, and reset == new. A pass does not "
        "establish that the invariant holds for all update sequences.")
    ctx.not_decided[:] = ["the inductive invariant 'every internal node equals the max of its children after any update sequence'",
                          "index arithmetic for non-power-of-two m (that parent/sibling indices stay within the array and form a tree)"]
    accessor_shapes(ctx, facts)
    tree_step(ctx, facts)
    layout(ctx, facts)
    analyzers, verified = {}, {}
    C13.check_struct(ctx, facts, C13.MVT, analyzers, verified)
