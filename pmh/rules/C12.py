"""C12 — a sketch is a pure function of parameters, hasher and input (ENT: who may draw ambient state)."""
import re

from .. import hirq, mirq, slicer
from ..rulelib import seed_sites, slicer_of, short

RULES = {
    "ENT": "no call in the library draws from an ambient source (ThreadRng/OsRng/rand::rng/random, from_os_rng/from_entropy, getrandom, "
           "RandomState::new/default, SystemTime/Instant::now, process::id, thread::current, env::var(s)/args, thread-local "
           "access, the size of the rayon pool / the machine's parallelism), exposes a pointer as an integer, or iterates a RandomState-keyed map holding library state — outside an "
           "explicit table of named opt-in functions. Creating a ThreadRng handle is not a draw.",
    "ENT-fields": "no struct field has a type mentioning RandomState or ThreadRng outside a tabled list; every hasher field is "
                  "BuildHasherDefault<_>",
    "ENT-statics": "no `static mut`, no interior-mutable or thread-local static other than the tabled logger guard",
    "SEED": "no seeding site of the crate has an ambient source among the roots of its seed (every site is listed with its roots)",
    "CTOR": "constructors that take a hasher take BuildHasherDefault<H> by type, so a keyed hasher (RandomState) cannot be injected",
}

DRAW_PATTERNS = [
    (r"ThreadRng", "ThreadRng"), (r"\bOsRng\b", "OsRng"), (r"rand::rngs::thread::rng\b|rand::rng\b|rand::thread_rng", "rand::rng"),
    (r"rand::random", "rand::random"), (r"from_os_rng|from_entropy|try_from_os_rng", "from_os_rng"), (r"getrandom", "getrandom"),
    (r"RandomState", "RandomState"), (r"SystemTime::now|Instant::now", "clock"), (r"std::process::id\b", "process id"),
    (r"std::thread::current\b|ThreadId", "thread identity"), (r"std::env::(var|vars|var_os|vars_os|args|args_os)\b", "environment"),
    (r"thread::local::LocalKey|thread::LocalKey", "thread-local state"), (r"Argument::<'_>::new_pointer|fmt::Pointer", "pointer formatting"),
    (r"std::ptr::.*addr\b|::expose_provenance|::addr\(\)", "pointer address"),
    # the size of the thread pool the caller happens to run in, or of the machine: not a parameter of the sketcher
    (r"rayon(_core)?::(current_num_threads|current_thread_index|max_num_threads)\b|ThreadPool::current_num_threads|ThreadPool::current_thread_index",
     "thread-pool geometry"),
    (r"std::thread::available_parallelism\b|num_cpus::get", "machine parallelism"),
]
HANDLE_OK = [r"^<rand::(rngs::)?(thread::|prelude::)?ThreadRng as (std|core)::default::Default>::default$",
             r"^<rand::(rngs::)?(thread::|prelude::)?ThreadRng as (std|core)::clone::Clone>::clone$", r"^rand::rng$", r"^rand::rngs::thread::rng$",
             r"drop_in_place"]
MAP_PROBE_OK = re.compile(r"HashMap::<.*>::(new|get|get_mut|insert|clear|contains_key|len|is_empty|with_capacity|remove|entry)$")
MAP_ITER = re.compile(r"::(iter|iter_mut|keys|values|values_mut|into_iter|drain|retain|into_keys|into_values)$")

ALLOWED_DRAWS = {
    "probminhasher::probordminhash2::ProbOrdMinHash2::<H>::change_rng_seed": "documented opt-in reseeding; its doc says it must not be used when hashes are stored",
    "probminhasher::probordminhash2::OrdMinHashStore::<V>::change_wyhash_seed": "called only from change_rng_seed (opt-in reseeding)",
}
ALLOWED_ITER = {
    "probminhasher::probminhash2::ProbMinHash2::<D, H>::hash_weigthed_hashmap": "iterates the caller's HashMap<D, f64>; independence of its order is C02",
}
ALLOWED_FIELDS = {
    ("probminhasher::probordminhash2::ProbOrdMinHash2", "counter"): "HashMap<u64,u64> with the default RandomState, only probed (get_mut/insert/clear), never iterated (enforced by ENT)",
    ("probminhasher::probordminhash2::ProbOrdMinHash2", "seed_rng"): "ThreadRng handle used only by change_rng_seed",
    ("probminhasher::probordminhash2::OrdMinHashStore", "seed_rng"): "ThreadRng handle used only by change_wyhash_seed",
}
ALLOWED_STATICS = {"LOG": "lazy_static logger guard, affects logging only"}
LOG_FNS = ("init_log", "<LOG as ")


def _classify(text):
    for (rx, name) in DRAW_PATTERNS:
        if re.search(rx, text):
            return name
    return None


def ent_calls(ctx, facts):
    n_calls = 0
    n_bodies = 0
    handles = 0
    for fn in facts.raw["fns"]:
        fid = fn["id"]
        owner = re.sub(r"::\{closure#\d+\}", "", fid)
        body = fn["mir"]
        n_bodies += 1
        if fid.startswith(LOG_FNS) or owner.startswith(LOG_FNS):
            continue
        for i, t in mirq.calls(body):
            n_calls += 1
            c = mirq.callee_of(t)
            text = " ".join([c, t.get("callee", "")] + t.get("substs", []))
            src = _classify(text)
            where = "%s:%d" % (t["sp"][0], t["sp"][1])
            if short(t.get("callee", "")) == "hasher" and re.search(r"(HashMap|HashSet|IndexMap|IndexSet)::<", t.get("callee", "") + c):
                # the BuildHasher of a container handed in by the caller: for a std HashMap it is a per-process keyed RandomState,
                # and whatever it is, it is not a parameter of the sketcher
                ctx.violation("ENT", owner, "container hasher used: %s" % c[:80], where,
                              "`%s` takes the hasher of the caller's container: anything derived from it (a seed, a slot) differs between two maps holding the "
                              "same data, hence between instances, threads and processes" % c[:120])
                continue
            if src is None:
                continue
            if any(re.search(h, c) for h in HANDLE_OK):
                handles += 1
                continue
            if src == "RandomState":
                # map operations on a RandomState-keyed map: probing is fine, iteration is not
                if MAP_PROBE_OK.search(c.split(" as ")[0]) or re.search(r"HashMap::<[^>]*>::(new|get|get_mut|insert|clear)$", t.get("callee", "")) or short(t.get("callee", "")) in ("new", "get", "get_mut", "insert", "clear", "contains_key", "len", "is_empty", "hash_one", "drop_in_place"):
                    if short(t.get("callee", "")) == "new" and "RandomState" in c and "HashMap" not in c:
                        pass
                    else:
                        continue
                if MAP_ITER.search(t.get("callee", "")) or "IntoIterator" in c or "Iterator" in c:
                    if owner in ALLOWED_ITER:
                        ctx.ok("ENT", owner, "iteration over a RandomState map allowed: %s" % ALLOWED_ITER[owner], where)
                        continue
                    ctx.violation("ENT", owner, "iteration over RandomState map: %s" % short(t.get("callee", "")), where,
                                  "`%s` iterates a map keyed by a per-process random hasher: the iteration order differs between processes" % c[:120])
                    continue
            if owner in ALLOWED_DRAWS:
                ctx.ok("ENT", owner, "draw from %s allowed: %s" % (src, ALLOWED_DRAWS[owner]), where)
                continue
            ctx.violation("ENT", owner, c[:120] if src != "RandomState" else "RandomState use: %s" % c[:100], where,
                          "this call draws from an ambient source (%s): `%s` — two sketchers with the same parameters would not produce identical sketches" % (src, c[:160]))
        # pointer exposure
        for b in body["blocks"]:
            for st in b["stmts"]:
                if st["k"] == "assign" and st["rv"]["k"] == "cast" and "ExposeProvenance" in st["rv"].get("castk", "") and not st["sp"][3]:
                    ctx.violation("ENT", owner, "pointer to integer cast", "%s:%d" % (st["sp"][0], st["sp"][1]), "an address is turned into an integer: it differs between processes (address-space layout)")
    ctx.ok("ENT", "<crate>", "%d MIR bodies, %d call sites scanned; %d ThreadRng handle creations (not draws)" % (n_bodies, n_calls, handles), "")
    return n_bodies, n_calls


def ent_fields(ctx, facts):
    n = 0
    hashers = 0
    for path, s in facts.structs.items():
        for f in s["fields"]:
            n += 1
            ty = f["ty"]
            where = "%s:%d" % (s["sp"][0], s["sp"][1])
            if re.search(r"RandomState|ThreadRng|OsRng", ty) or ("HashMap<" in ty and ty.count(",") < 2 and "BuildHasherDefault" not in ty) or ("HashSet<" in ty and "," not in ty):
                key = (path, f["name"])
                if key in ALLOWED_FIELDS:
                    ctx.ok("ENT-fields", path, "%s: %s — %s" % (f["name"], ty[:60], ALLOWED_FIELDS[key]), where)
                else:
                    ctx.violation("ENT-fields", path, "field %s" % f["name"], where, "field `%s: %s` carries per-instance / per-process random state" % (f["name"], ty[:100]))
            if f["name"] in ("b_hasher", "build_hasher", "hasher") or "BuildHasher" in ty:
                hashers += 1
                if ty.startswith("std::hash::BuildHasherDefault<"):
                    ctx.ok("ENT-fields", path, "%s: BuildHasherDefault" % f["name"], where)
                else:
                    ctx.violation("ENT-fields", path, "hasher field %s" % f["name"], where, "hasher field `%s: %s` is not a BuildHasherDefault: a keyed hasher makes sketches differ between instances" % (f["name"], ty[:100]))
    return n, hashers


def ent_statics(ctx, facts):
    for s in facts.statics:
        name = s["path"].split("::")[-1]
        where = "%s:%d" % (s["sp"][0], s["sp"][1])
        if s["mutable"]:
            ctx.violation("ENT-statics", s["path"], "static mut", where, "mutable static `%s`: shared state across instances and threads" % s["path"])
        elif not s["freeze"] or "thread_local" in s["path"].lower() or "LocalKey" in s["ty"]:
            if name in ALLOWED_STATICS or s["path"].startswith("<LOG as "):
                ctx.ok("ENT-statics", s["path"], "tabled: %s" % ALLOWED_STATICS["LOG"], where)
            else:
                ctx.violation("ENT-statics", s["path"], "interior-mutable static", where, "static `%s: %s` has interior mutability (or is thread-local): hidden state shared between sketchers" % (s["path"], s["ty"][:80]))
        else:
            ctx.ok("ENT-statics", s["path"], "immutable, Freeze", where)
    return len(facts.statics)


def seeds_listing(ctx, facts):
    n = 0
    listing = []
    for fn in facts.lib_fns():
        sites = seed_sites(fn)
        if not sites:
            continue
        sl = slicer_of(fn)
        for s in sites:
            for ai, a in enumerate(s["args"]):
                roots = sorted(slicer.show_root(r) for r in sl.roots(a))
                n += 1
                bad = [r for r in roots if r.startswith("call ") and _classify(r) and not re.search(r"BuildHasherDefault", r)]
                cs = short(s.get("callee") or "")
                if bad:
                    ctx.violation("SEED", fn["id"], "ambient source in seed of %s" % cs, hirq.loc(s), "the seed passed to %s derives from %s" % (cs, bad))
                else:
                    ctx.ok("SEED", fn["id"], "%s arg %d <- {%s}" % (cs, ai, ", ".join(r[:50] for r in roots)), hirq.loc(s))
                listing.append({"fn": fn["id"], "callee": cs, "arg": ai, "roots": roots, "where": hirq.loc(s)})
    ctx.extra["seeding_sites"] = listing
    return n


def ctor_types(ctx, facts):
    n = 0
    for fn in facts.lib_fns():
        if short(fn["id"]) != "new" or "params" not in fn:
            continue
        for p in fn["params"]:
            ty = p["ty"]
            if "Hasher" in ty or "RandomState" in ty:
                n += 1
                if ty.startswith("std::hash::BuildHasherDefault<"):
                    ctx.ok("CTOR", fn["id"], "hasher parameter typed %s" % ty, hirq.loc(fn))
                else:
                    ctx.violation("CTOR", fn["id"], "hasher parameter type", hirq.loc(fn), "constructor takes `%s`: a keyed hasher can be injected" % ty[:80])
    return n


def short_(fid):
    return "::".join(fid.split("::")[-2:])


def run(ctx, facts):
    for k, v in RULES.items():
        ctx.rule(k, v)
    ctx.extra["explanation"] = (
        "ENT over the whole library: every MIR call site (resolved instances and generic arguments) of every body is matched "
        "against the ambient-source patterns; allowed draw sites are an explicit table of two opt-in functions. Struct field types, "
        "statics, constructor hasher parameter types and the roots of every seeding site are checked as well. The compile-fail "
        "witness (a RandomState cannot be passed to the constructors) runs in the thorough tier.")
    ctx.not_decided[:] = ["determinism of user-supplied H: Hasher + Default", "algorithms of dependency crates (xoshiro, chacha, wyhash, murmur3, sha2 are specified algorithms)"]
    nb, nc = ent_calls(ctx, facts)
    ctx.floor("C12 bodies scanned", nb, 170)
    ctx.floor("C12 call sites scanned", nc, 1000)
    nf_, nh = ent_fields(ctx, facts)
    ctx.floor("C12 struct fields", nf_, 60)
    ctx.floor("C12 hasher fields", nh, 8)
    ent_statics(ctx, facts)
    ns = seeds_listing(ctx, facts)
    # today 17; removing a seeding site (e.g. a rehash that is dropped) cannot break C12, so the floor only guards against a vacuous listing
    ctx.floor("C12 seeding site arguments", ns, 12)
    nk = ctor_types(ctx, facts)
    ctx.floor("C12 constructors taking a hasher", nk, 4)
    # a std HashMap yields its entries in an order keyed by per-process random state: the entry points that consume one must
    # not depend on that order — every item gets its race whatever came before it (exits, pruning and deferral of C02)
    from . import C02, C13
    ctx.rule("ORDER", "the entry points that iterate a HashMap (whose order is keyed by per-process random state) leave their loops "
                      "over the items only when the container is exhausted, and prune/defer an item only on a comparison with the "
                      "tracker maximum (EXIT of C02 on those functions)")
    hm = [f for f in C02.PROTO_FNS if f.endswith("hash_weigthed_hashmap") and facts.has(f)]
    sub = type(ctx)(ctx.prop, ctx.tier)
    sub.configs = list(ctx.configs)
    n_ = 0
    for f in hm:
        n_ += C02._exit_rule(sub, facts, f)
    for v in sub.violations:
        ctx.violation("ORDER", v["fn"], v["instance"], v["where"], v["message"])
    if not sub.violations:
        ctx.ok("ORDER", ", ".join(short_(f) for f in hm), "%d exit / pruning instances of the HashMap entry points are legitimate" % n_, "")
    ctx.floor("C12 HashMap entry points", len(hm), 2)
    # entry points: the batch entry point of a sketcher is the per-item entry point applied to each element (plus the tabled
    # finisher): the same items give the same sketch whichever of the two fed them
    from . import C04
    ctx.rule("DELEG", C04.RULES["DELEG"] + " — C12: a sketch is a function of the items, not of the entry point that fed them")
    for fid_, fin_ in ((C04.SMH + "sketch_slice", None), (C04.SMH2 + "sketch_slice", None), (C04.SS + "sketch_slice", None),
                       (C04.OD + "sketch_slice", "densify"), (C04.RD + "sketch_slice", "densify")):
        if facts.has(fid_):
            C04.deleg_slice(ctx, facts, fid_, finisher=fin_)
    # histories: an instance brought back by reinit()/reset() is a constructed instance
    ctx.rule("REINIT", "reinit/reset re-establishes every live mutated field with the constructor's value (RESET analysis of C13): an "
                       "instance reused after it produces what a new instance produces")
    C13.require_verified_reset(ctx, facts, [x for x in (C13.FY, C13.MVT, C13.OMS, C13.SMH, C13.SMH2, C13.SS, C13.OD, C13.RD, C13.P2)], "REINIT")


def thorough(ctx, src):
    """WITNESS: compile_fail doc-tests with compiling twins, run by cargo +nightly test --doc against the analysed tree"""
    import os
    import re as _re
    import shutil
    import subprocess
    from ..engine import VERIF, WORK, REPO, AnalysisError
    src = src or REPO
    wdir = os.path.join(WORK, "witness")
    os.makedirs(os.path.join(wdir, "src"), exist_ok=True)
    shutil.copy2(os.path.join(VERIF, "witness", "src", "lib.rs"), os.path.join(wdir, "src", "lib.rs"))
    toml = open(os.path.join(VERIF, "witness", "Cargo.toml.in")).read().replace("@SRC@", src)
    open(os.path.join(wdir, "Cargo.toml"), "w").write(toml)
    lock = os.path.join(src, "Cargo.lock")
    if os.path.exists(lock):
        shutil.copy2(lock, os.path.join(wdir, "Cargo.lock"))
    env = dict(os.environ, CARGO_NET_OFFLINE="true", CARGO_TARGET_DIR=os.path.join(WORK, "witness-target"))
    r = subprocess.run(["cargo", "+nightly", "test", "--doc", "--offline"], cwd=wdir, env=env, capture_output=True, text=True)
    out = r.stdout + r.stderr
    results = _re.findall(r"test src/lib.rs - (\w+) \(line (\d+)\)( - compile fail)? \.\.\. (\w+)", out)
    ctx.rule("WITNESS", "compile_fail,E0308 doc-tests: passing a RandomState where the constructors take BuildHasherDefault<H> must not "
                        "type-check; each witness has a compiling twin differing only in that argument")
    if not results:
        raise AnalysisError("witness doc-tests did not run: " + out[-1500:])
    nf_, ntw = 0, 0
    for (name, line, cf_, res) in results:
        if cf_:
            nf_ += 1
            if res == "ok":
                ctx.ok("WITNESS", name, "RandomState rejected with E0308 (compile_fail witness, line %s)" % line, "witness/src/lib.rs:%s" % line)
            else:
                ctx.violation("WITNESS", name, "keyed hasher accepted", "witness/src/lib.rs:%s" % line,
                              "the constructor accepts a RandomState (the compile_fail witness compiled or failed with another error): a keyed hasher can be injected")
        else:
            ntw += 1
            if res == "ok":
                ctx.ok("WITNESS", name, "twin with BuildHasherDefault compiles (line %s)" % line, "witness/src/lib.rs:%s" % line)
            else:
                raise AnalysisError("the compiling twin of witness %s does not compile, so its compile_fail result means nothing: %s" % (name, out[-1200:]))
    ctx.extra["witness"] = {"compile_fail_witnesses": nf_, "twins": ntw}
    if nf_ < 4 or ntw < 4:
        raise AnalysisError("expected 4 witnesses and 4 twins, ran %d / %d" % (nf_, ntw))
