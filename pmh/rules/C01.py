"""C01 — ProbMinHash estimates J_P without bias: structural preconditions ONLY (the expectation is not decided)."""
import re

from .. import hirq, nf, symeval
from ..rulelib import tree_of, user_nodes, def_exprs, for_loops, resolver_of, short, self_method_calls, hir_dominates
from . import C02, C14, C15, C17, C13

P2 = C02.P2
P3, P3A, SHA = C02.P3, C02.P3A, C02.SHA
POM = "probminhasher::probordminhash2::ProbOrdMinHash2::<H>::"

RULES = {
    "PRE": "structural preconditions shared with C02/C14/C15/C17: the same race is replayed for a common item (SEED, fresh digest), "
           "registers are guarded minima paired with their item (GUARD), pruning only discards points that cannot win (EXIT, tracker "
           "accessor and step shapes), 3/3a/3aSha draw in the same order and bands (RNGPROTO, BAND), slots of variant 2 come from a "
           "per-item reset permutation whose array is only swapped (RESETBEFORE, WRITERS, DRAWSHAPE), the estimator is matches/m (EST)",
    "LAMBDA": "the three constructors of ProbMinHash3 / 3a / 3aSha define the rate of the truncated exponential by the same expression "
              "of the signature length (sibling agreement), that expression is ln(m/(m-1)) (`.ln()` of m/(m-1), `ln_1p()` of 1/(m-1) or "
              "-ln((m-1)/m): equality of rational functions), and store ExpRestricted01::new(rate); every E draw uses that field",
    "BETAS": "ProbMinHash2's table betas and ProbOrdMinHash2's table g (both the increments m/(m-i) of the without-replacement race) "
             "agree entry by entry as rational functions of m, and each race adds table[counter] * Exp(1) / weight with the counter "
             "advanced once per draw",
}


def lambda_rule(ctx, facts):
    forms = {}
    for pre in (P3, P3A, SHA):
        fn = facts.fn(pre + "new")
        R = resolver_of(fn)
        P = hirq.show_pat(fn["params"][0]["pat"])
        f = [nf.nf(f_["e"], False, res=R) for x in hirq.walk(fn["hir"]) if x["k"] == "Struct" for f_ in x["fields"] if f_["name"] == "exp01"]
        if len(f) != 1:
            ctx.violation("LAMBDA", pre + "new", "exp01 field", hirq.loc(fn), "the constructor does not initialise exp01 exactly once")
            continue
        forms[pre + "new"] = f[0].replace("(%s as f64)" % P, "(M as f64)").replace("((%s - 1) as f64)" % P, "((M - 1) as f64)")
        # the rate itself: ln(m/(m-1)) — `.ln()` of m/(m-1), `ln_1p()` of 1/(m-1), or minus `.ln()` of (m-1)/m, any algebraic form
        from .. import ratfn
        fe = [f_["e"] for x in hirq.walk(fn["hir"]) if x["k"] == "Struct" for f_ in x["fields"] if f_["name"] == "exp01"][0]
        fe = nf.strip_casts(fe)
        for _ in range(4):
            if fe["k"] == "Path" and "local" in fe["res"] and R.lookup(fe["res"]["local"], fe) is not None:
                fe = nf.strip_casts(R.lookup(fe["res"]["local"], fe))
        rate_ok, shown = False, nf.nf(fe, True, res=R)
        if fe["k"] == "Call" and len(fe.get("args", [])) == 1:
            a = nf.strip_casts(fe["args"][0])
            for _ in range(4):
                if a["k"] == "Path" and "local" in a["res"] and R.lookup(a["res"]["local"], a) is not None:
                    a = nf.strip_casts(R.lookup(a["res"]["local"], a))
            neg = False
            if a["k"] == "Unary" and a["op"] == "-":
                neg, a = True, nf.strip_casts(a["e"])
            if a["k"] == "MethodCall" and a["name"] in ("ln", "ln_1p") and not a["args"]:
                r_ = ratfn.rat(a["recv"], R, {P: (ratfn.p_atom("M"), ratfn.ONE)})
                want = {("ln", False): "M/(M-1)", ("ln_1p", False): "1/(M-1)", ("ln", True): "(M-1)/M", ("ln_1p", True): "0 - 1/M"}[(a["name"], neg)]
                rate_ok = ratfn.equal(r_, ratfn.parse(want))
                shown = "%s%s(%s)" % ("-" if neg else "", a["name"], ratfn.show(r_))
        if rate_ok:
            ctx.ok("LAMBDA", pre + "new", "rate == ln(m/(m-1)): %s" % shown[:80], hirq.loc(fe))
            forms[pre + "new"] = "exp01::ExpRestricted01::new(ln(M/(M-1)).ln())"      # canonical: siblings agree whatever the spelling
        else:
            ctx.violation("LAMBDA", pre + "new", "rate value", hirq.loc(fe), "the rate of the truncated exponential is `%s`, expected ln(m/(m-1)) (one point per unit interval hits a given slot with probability 1/m)" % shown[:120])
    vals = set(forms.values())
    if len(vals) == 1 and re.match(r"^exp01::ExpRestricted01::new\(.*\.ln\(\)\)$", list(vals)[0]) and len(forms) == 3:
        ctx.ok("LAMBDA", P3 + "new", "all three constructors: exp01 = %s" % list(vals)[0], hirq.loc(facts.fn(P3 + "new")))
    elif len(forms) == 3:
        maj = max(vals, key=lambda v: list(forms.values()).count(v))
        for k, v in forms.items():
            if v != maj or len(vals) == 3:
                ctx.violation("LAMBDA", k, "rate differs from siblings", hirq.loc(facts.fn(k)), "this constructor builds `%s` where its siblings build `%s`" % (v[:100], maj[:100]))
    # every E draw uses self.exp01
    for fid in C02.PROTO_FNS:
        fn = facts.fn(fid)
        bad = [x for x in user_nodes(fn) if x["k"] == "MethodCall" and x["name"] == "sample" and "ExpRestricted01" in x.get("recv_ty", "") and nf.nf(x["recv"]) != "self.exp01"]
        if bad:
            ctx.violation("LAMBDA", fid, "foreign sampler", hirq.loc(bad[0]), "a truncated-exponential draw does not use self.exp01: %s" % hirq.show(bad[0])[:60])


def _ev_with_lets(fn, e, env):
    """symeval.ev with the immutable `let`s of the function resolved on demand (they depend only on the parameter and the loop variable)"""
    env_lets = {}
    for st in user_nodes(fn):
        if st["k"] == "Let" and st["pat"].get("k") == "Bind" and "Mut" not in st["pat"].get("mode", "") and "init" in st:
            env_lets[st["pat"]["name"]] = st["init"]
    env = dict(env)
    for _ in range(6):
        try:
            return symeval.ev(e, env)
        except symeval.NotConst as ex:
            nm = str(ex).split()[-1].strip("`'\"")
            if nm in env_lets and nm not in env:
                env[nm] = _ev_with_lets(fn, env_lets[nm], env)
            else:
                raise
    return symeval.ev(e, env)


def _betas_table(facts, n):
    fn = facts.fn(P2 + "new")
    P = hirq.show_pat(fn["params"][0]["pat"])
    for x in hirq.walk(fn["hir"]):
        if x["k"] == "MethodCall" and x["name"] == "map" and x["args"] and x["args"][0]["k"] == "Closure":
            cl = x["args"][0]
            recv = nf.strip(x["recv"])
            rev = False
            while recv["k"] == "MethodCall" and recv["name"] in ("rev", "into_iter") and not recv["args"]:
                rev = rev != (recv["name"] == "rev")
                recv = nf.strip(recv["recv"])
            rng = nf.nf(recv, True)
            if rng == "std::ops::Range{start:0, end:%s}" % P and hirq.show_pat(cl["params"][0]) != "_":
                v = hirq.show_pat(cl["params"][0])
                order = list(range(n))[::-1] if rev else list(range(n))
                try:
                    return [_ev_with_lets(fn, cl["body"], {P: n, v: t}) for t in order]
                except symeval.NotConst:
                    return None
    # push-loop idiom: `let mut betas = Vec::with_capacity(m); for x in 0..m { [immutable lets;] betas.push(e(x)) }`
    R = resolver_of(fn)
    t = tree_of(fn)
    tab = [f_["e"] for x in hirq.walk(fn["hir"]) if x["k"] == "Struct" for f_ in x["fields"] if f_["name"] == "betas"]
    if tab and nf.strip(tab[0])["k"] == "Path" and "local" in nf.strip(tab[0])["res"]:
        tname = nf.strip(tab[0])["res"]["name"]
        pushes = [x for x in user_nodes(fn) if x["k"] == "MethodCall" and x["name"] == "push" and nf.nf(x["recv"]) == tname]
        fls = [f for f in for_loops(fn) if pushes and t.contains(f["body"], pushes[0])]
        if len(pushes) == 1 and len(fls) == 1 and nf.nf(fls[0]["iter"], True, res=R) == "std::ops::Range{start:0, end:%s}" % P \
                and not nf.all_conditions(t, pushes[0], stop=fls[0]["loop"]) and fls[0]["pat"].get("k") == "Bind":
            v = fls[0]["pat"]["name"]
            # the pushed expression with the immutable locals of the loop body (and of the function) substituted
            expr = pushes[0]["args"][0]
            env_lets = {}
            for st in user_nodes(fn):
                if st["k"] == "Let" and st["pat"].get("k") == "Bind" and "Mut" not in st["pat"].get("mode", "") and "init" in st:
                    env_lets[st["pat"]["name"]] = st["init"]

            def evl(e, t_):
                env = {P: n, v: t_}
                # resolve immutable lets on demand (they only depend on the parameter and the loop variable)
                for _ in range(4):
                    try:
                        return symeval.ev(e, env)
                    except symeval.NotConst as ex:
                        nm = str(ex).split()[-1].strip("`'\"")
                        if nm in env_lets and nm not in env:
                            env[nm] = evl(env_lets[nm], t_)
                        else:
                            raise
                return symeval.ev(e, env)
            return [evl(expr, t_) for t_ in range(n)]
    return None


def _g_table(facts, n):
    fn = facts.fn(POM + "new")
    R = resolver_of(fn)
    fls = for_loops(fn)
    tab = {}
    Mname = hirq.show_pat(fn["params"][0]["pat"])
    # idiom 2: g = (a..m).map(|i| f(i)).collect()
    gfield = [f_["e"] for x in hirq.walk(fn["hir"]) if x["k"] == "Struct" for f_ in x["fields"] if f_["name"] == "g"]
    if gfield:
        e = nf.strip(gfield[0])
        if e["k"] == "Path" and "local" in e["res"]:
            d = R.lookup(e["res"]["local"])
            e = nf.strip(d) if d is not None else e
        if e["k"] == "MethodCall" and e["name"] == "collect":
            mp = nf.strip(e["recv"])
            if mp["k"] == "MethodCall" and mp["name"] == "map" and mp["args"] and mp["args"][0]["k"] == "Closure":
                cl = mp["args"][0]
                rng = nf.nf(mp["recv"], True, res=R)
                mm = re.match(r"^std::ops::Range\{start:(\d+), end:(\w+)\}$", rng)
                v = hirq.show_pat(cl["params"][0])
                if mm and v != "_":
                    for t_, i in enumerate(range(int(mm.group(1)), n)):
                        tab[t_] = symeval.ev(cl["body"], {Mname: n, "m": n, v: i})
                    return tab or None
    for f in fls:
        rng = nf.nf(f["iter"], True, res=R)
        m = re.match(r"^std::ops::Range\{start:(\d+), end:(\w+)\}$", rng)
        if not m:
            continue
        var = hirq.show_pat(f["pat"])
        Mname = hirq.show_pat(fn["params"][0]["pat"])
        for st in f["body"]["stmts"] + ([f["body"]["expr"]] if "expr" in f["body"] else []):
            if st["k"] == "Assign" and nf.strip(st["l"])["k"] == "Index":
                l = nf.strip(st["l"])
                for i in range(int(m.group(1)), n):
                    env = {Mname: n, "m": n, var: i}
                    idx = symeval.ev(_subst(l["idx"], R), env)
                    tab[int(idx)] = symeval.ev(_subst(st["r"], R), env)
    return tab or None


def _subst(e, R):
    return e


def betas_rule(ctx, facts):
    ok = True
    detail = ""
    try:
        for n in (2, 3, 7, 16):
            b = _betas_table(facts, n)
            g = _g_table(facts, n)
            if b is None or g is None:
                ctx.violation("BETAS", P2 + "new", "cannot-establish: table idiom", hirq.loc(facts.fn(P2 + "new")), "the betas / g tables are not built by the recognised idioms (map over 0..m / index loop)")
                return
            for t in range(n - 1):
                if b[t] != g.get(t):
                    ok = False
                    detail = "m=%d, entry %d: betas = %s, g = %s" % (n, t, b[t], g.get(t))
            want = [symeval.Fraction(n, n - i) for i in range(1, n)]
            if [g.get(t) for t in range(n - 1)] != want and b[:n - 1] != want:
                ok = False
                detail = detail or "m=%d: neither table equals m/(m-i), i=1..m-1" % n
    except symeval.NotConst as e:
        ctx.violation("BETAS", P2 + "new", "cannot-establish: non-constant table entry", hirq.loc(facts.fn(P2 + "new")), "table entry depends on %s" % e)
        return
    if ok:
        ctx.ok("BETAS", P2 + "new", "betas[t] == g[t] == m/(m-t-1) for m in {2,3,7,16}, all t (exact rationals)", hirq.loc(facts.fn(P2 + "new")))
    else:
        ctx.violation("BETAS", P2 + "new", "tables disagree", hirq.loc(facts.fn(P2 + "new")), "ProbMinHash2::betas and ProbOrdMinHash2::g, both the increments m/(m-i) of the same race, differ: %s" % detail)
    betas_use(ctx, facts)


def betas_use(ctx, facts, sites=None):
    """use sites: value += table[counter] * draw ; counter += 1 once per iteration, whatever the registers answered"""
    for (fid, table) in (sites or ((P2 + "hash_item", "betas"), (POM + "hash_set", "g"))):
        fn = facts.fn(fid)
        t = tree_of(fn)
        uses = [x for x in user_nodes(fn) if x["k"] == "Index" and nf.nf(x["base"]) == "self.%s" % table]
        if len(uses) != 1:
            ctx.violation("BETAS", fid, "table use", hirq.loc(fn), "expected exactly one use of self.%s in the race loop, found %d" % (table, len(uses)))
            continue
        u = uses[0]
        cnt = nf.nf(u["idx"], True)
        ds = [nf.nf(d) for d in def_exprs(fn, cnt)] if re.match(r"^\w+$", cnt) else []
        loops = t.enclosing_loops(u)
        incs = [x for x in user_nodes(fn) if x["k"] == "AssignOp" and nf.nf(x["l"]) == cnt]
        good = ds == ["0", "%s += 1" % cnt] and len(incs) == 1 and loops and t.parent.get(id(incs[0])) is loops[0]["body"].get("expr", {}).get("t", None) or \
            (ds == ["0", "%s += 1" % cnt] and len(incs) == 1 and loops and not [c for c in nf.all_conditions(t, incs[0], stop=loops[0]) if c[0] != "cmp" or c[3] not in ("qmax", "self.max_tracker.get_max_value()")])
        par = t.parent.get(id(u))
        # the statement that adds the product to the race value: `h += w * table[i] * x`, or the same through named parts
        # (`let scale = w * table[i]; let inc = scale * x; h = h + inc;`): an immutable local with one use is followed to that use
        acc = None
        cur = u
        for _ in range(5):
            st_ = None
            for a in t.ancestors(cur):
                if a["k"] in ("AssignOp", "Assign", "Let"):
                    st_ = a
                    break
            if st_ is None:
                break
            if st_["k"] == "AssignOp" and st_["op"] == "+=":
                acc = st_
                break
            if st_["k"] == "Assign":
                r_ = nf.strip_casts(st_["r"])
                if r_["k"] == "Binary" and r_["op"] == "+" and nf.nf(st_["l"]) in (nf.nf(r_["l"]), nf.nf(r_["r"])):
                    acc = st_
                break
            if st_["pat"].get("k") != "Bind" or "Mut" in st_["pat"].get("mode", ""):
                break
            uses_ = [x for x in user_nodes(fn) if x["k"] == "Path" and x["res"].get("local") == st_["pat"]["id"] and not hirq.in_log_macro(x)]
            if len(uses_) != 1:
                break
            cur = uses_[0]
        if good and acc is not None and hir_dominates(t, acc, incs[0]):
            ctx.ok("BETAS", fid, "%s += .. * self.%s[%s] .. ; %s += 1 once per draw" % (nf.nf(acc["l"]), table, cnt, cnt), hirq.loc(u))
        else:
            ctx.violation("BETAS", fid, "increment", hirq.loc(u), "the race must add self.%s[counter] * draw and then advance the counter exactly once per draw; counter `%s` is defined by %s" % (table, cnt, ds))


def weight_rule(ctx, facts):
    """WEIGHT: the race value offered to a register depends on the item's weight and on the item's generator (h = x / w)"""
    import fnmatch
    from ..rulelib import slicer_of
    from .. import slicer
    for (fid, _allowed) in C02.RACE_FNS:
        fn = facts.fn(fid)
        sl = slicer_of(fn)
        wpat = "param #2:*" if fid.endswith("hash_item") else "param #1:*.1"
        kpat = "param #1:*" if fid.endswith("hash_item") else "param #1:*.0"
        for u in self_method_calls(fn, C02.TRACKER, ["update"]):
            hv = nf.strip(u["args"][1])
            exprs = [u["args"][1]]
            if hv["k"] == "Path" and "local" in hv["res"]:
                # every definition of the race value must carry the weight on its own (the slice is flow-insensitive)
                exprs = [d["r"] if d["k"] == "AssignOp" else d for d in def_exprs(fn, hv["res"]["name"])]
            bad = None
            for e in exprs:
                roots = {slicer.show_root(r) for r in sl.roots(e)}
                if not any(fnmatch.fnmatchcase(r, wpat) or r.startswith("self.to_be_processed.1") for r in roots):
                    bad = (e, roots)
            roots_all = {slicer.show_root(r) for r in sl.roots(u["args"][1])}
            hask = any(fnmatch.fnmatchcase(r, kpat) or r.startswith("self.to_be_processed") for r in roots_all)
            if bad is None and hask:
                ctx.ok("WEIGHT", fid, "every definition of the race value (%d) depends on the item's weight; the value depends on the item's generator" % len(exprs), hirq.loc(u))
            elif bad is not None:
                ctx.violation("WEIGHT", fid, "race value ignores the weight", hirq.loc(bad[0]),
                              "the race value is defined here as `%s`, which does not depend on the item's weight (roots %s)" % (nf.nf(bad[0], True)[:80], sorted(bad[1])[:6]))
            else:
                ctx.violation("WEIGHT", fid, "race value ignores the item", hirq.loc(u), "the value offered to the register does not depend on the item's generator: roots %s" % sorted(roots_all)[:8])


def run(ctx, facts):
    for k, v in RULES.items():
        ctx.rule(k, v)
    ctx.rule("WEIGHT", "the race value offered to a register depends on both the item's weight and the item's generator (h = x / w): a race that ignores the weights estimates the plain, not the probability-weighted, similarity")
    for k in ("SEED", "SHASEED", "RNGPROTO", "GUARD", "WRITERS", "EXIT", "BAND", "RESETBEFORE", "TRACKERSHAPE"):
        ctx.rule(k, C02.RULES.get(k, ""))
    ctx.extra["explanation"] = (
        "C01 is an expectation and a mean-squared-error bound over hash randomness; that is NOT decided and no static argument in "
        "reach can decide it (the law of the truncated-exponential sampler is value-level; the rate it is built with is checked to be ln(m/(m-1))). Decided are the "
        "structural preconditions anchored in its mechanisms: a common item replays the same race in both sets, registers are guarded "
        "minima, pruning is sound, the variants draw in the same order, slots of variant 2 are a per-item permutation, the rate and "
        "the increment tables are defined consistently across sibling implementations, the estimator is matches/m.")
    ctx.not_decided[:] = ["the expectation E[fraction of equal positions] = J_P and the MSE bound", "the law of the truncated-exponential sampler (C16)",
                          "single-set position law w_d / sum(w)"]
    C02.run(ctx, facts)
    ctx.extra["explanation"] = ctx.extra["explanation"]
    # LAMBDA is run by C02.run (3 and 3a agree only if they are built with the same rate)
    betas_rule(ctx, facts)
    weight_rule(ctx, facts)
    C14.est_template(ctx, facts, "jaccard::compute_probminhash_jaccard")
    C14.est_template(ctx, facts, "jaccard::get_jaccard_index_estimate")
    C15.tree_step(ctx, facts)
    # variant 2's slots: FYshuffle's array is only swapped, draw shape
    for fid in (P2 + "hash_item",):
        pass
    ctx.not_decided[:] = ["the expectation E[fraction of equal positions] = J_P and the MSE bound", "the law of the truncated-exponential sampler (C16)",
                          "single-set position law w_d / sum(w)"]
