"""C05 — sketch of a union is the position-wise join; SetSketch merge is exact (structural clauses)."""
import re

from .. import hirq, nf, slicer
from ..rulelib import (resolver_of, tree_of, user_nodes, writes_to_self, self_method_calls, mutating_self_calls, hir_dominates,
                       for_loops, loop_exits, def_exprs, short)
from . import C04

SS = "setsketcher::SetSketcher::<I, T, H>::"

RULES = {
    "MERGE-a": "in SetSketcher::merge the first effect on self is dominated by rejecting comparisons (early `return Err`) that "
               "together read, on both self and other, every field that SetSketcher::new copies from a SetSketchParams getter",
    "MERGE-c": "merge leaves before the register join only through the parameter-mismatch rejections: every other return (an "
               "'empty source' fast path, an early Ok) would skip the join for some pair of compatible sketches",
    "MERGE-b": "the only register effect of merge is k_vec[i] = max(k_vec[i], other.k_vec[i]) over the full range 0..k_vec.len(); "
               "merge writes nothing but k_vec and nb_overflow",
    "LOWER": "lower_k is written only with the constant 0 in new/default/reinit, and in sketch only with a min-fold over "
             "self.k_vec, under `flow > self.lower_k`",
    "GUARD": "register writes of SuperMinHash and SetSketcher are guarded improvements (shared with C04)",
    "PROV": "register values depend on the item's generator only (shared with C04)",
}

MINFOLDS = {
    "self.k_vec.iter().fold(self.k_vec[0], |min,x| if (x < min) {{x}} else {{min}})",
    "self.k_vec.iter().fold(self.k_vec[0], |min,x| if (x < min) {x} else {min})",
    "self.k_vec.iter().min().unwrap()",
    "self.k_vec.iter().copied().min().unwrap()",
    # element 0 as the fold's seed and the remaining registers folded in: still every register (the seed must be [0])
    "self.k_vec.iter().skip(1).fold(self.k_vec[0], |min,x| if (x < min) {{x}} else {{min}})",
    "self.k_vec.iter().skip(1).fold(self.k_vec[0], |min,x| if (x < min) {x} else {min})",
}


def param_fields(facts):
    """fields of SetSketcher that `new` initialises directly from a params getter"""
    fn = facts.fn(SS + "new")
    out = []
    for n in hirq.walk(fn["hir"]):
        if n["k"] == "Struct" and hirq.respath(n["res"]).endswith("SetSketcher"):
            for f in n["fields"]:
                e = nf.strip(f["e"])
                if e["k"] == "MethodCall" and e["name"].startswith("get_") and nf.nf(e["recv"]) == "params" and not e["args"]:
                    out.append(f["name"])
    return out


def _rejecting_ifs(fn):
    """top-level `if c { return Err(..) }` statements of the body: [(if node, [disjunct nf strings])]"""
    body = fn["hir"]
    out = []
    for st in body["stmts"]:
        if st["k"] == "If" and "e" not in st and not hirq.in_log_macro(st):
            t = st["t"]
            last = (t["stmts"][-1] if t["stmts"] else t.get("expr")) if t["k"] == "Block" else t
            if last is not None and last["k"] == "Ret" and "e" in last and "Err" in hirq.show(last["e"])[:40]:
                out.append(st)
    return out


def _disjuncts(c):
    c = nf.strip(c)
    if c["k"] == "Binary" and c["op"] == "||":
        return _disjuncts(c["l"]) + _disjuncts(c["r"])
    return [c]


def _compares_field(d, f, other="other", neg=False, R=None):
    """disjunct d is `self.f != other.f` or `|self.f - other.f| / self.f >= eps`-like (true when they differ); with neg the
    node is a conjunct of an acceptance test and its negation is the disjunct"""
    d = nf.strip(d)
    if d["k"] != "Binary":
        return False
    a, b = "self.%s" % f, "%s.%s" % (other, f)
    op = d["op"]
    if neg:
        op = {"==": "!=", "<": ">=", "<=": ">", ">": "<=", ">=": "<"}.get(op)
    if op == "!=":
        return {nf.nf(d["l"], res=R), nf.nf(d["r"], res=R)} == {a, b}
    def gap(s_):
        """the magnitude of the difference of the two fields, alone or scaled by one of them: |a - b| [/ a]; the absolute value is
        taken of the difference itself, and nothing but a scaling is applied to it (a `max` with another signed gap before the
        `abs` would hide a negative difference)"""
        core = [r"\(%s - %s\)\.abs\(\)" % (re.escape(x), re.escape(y)) for (x, y) in ((a, b), (b, a))]
        scale = r"(?: / (?:%s|%s)(?:\.abs\(\))?)?" % (re.escape(a), re.escape(b))
        return any(re.match(r"^\(?%s%s\)?$" % (c_, scale), s_) for c_ in core)
    if op in (">=", ">"):
        l = nf.nf(d["l"], res=R)
        return gap(l) and a not in nf.nf(d["r"], res=R) and b not in nf.nf(d["r"], res=R)
    if op in ("<=", "<"):
        r = nf.nf(d["r"], res=R)
        return gap(r) and a not in nf.nf(d["l"], res=R) and b not in nf.nf(d["l"], res=R)
    return False


def _conjuncts(c):
    c = nf.strip(c)
    if c["k"] == "Binary" and c["op"] == "&&":
        return _conjuncts(c["l"]) + _conjuncts(c["r"])
    return [c]


def _helper_tests(facts, c):
    """`!self.h(other)` where h is an effect-free in-crate predicate of the form `if C1 {return false} .. true` or a tail
    conjunction: the comparisons whose failure makes h false, as [(node, other-name, negated)]; None if c is not of that form"""
    c = nf.strip(c)
    if not (c["k"] == "Unary" and c["op"] == "!"):
        return None
    m = nf.strip(c["e"])
    if m["k"] != "MethodCall" or nf.nf(m["recv"]) != "self" or len(m["args"]) != 1 or nf.nf(m["args"][0]) not in ("other", "&other"):
        return None
    h = facts.fns.get(m.get("callee", ""))
    if h is None or "hir" not in h or len(h["params"]) != 2:
        return None
    if writes_to_self(h) or mutating_self_calls(h) or any(x["k"] in ("Assign", "AssignOp") for x in hirq.walk(h["hir"])):
        return None
    oname = hirq.show_pat(h["params"][1]["pat"])
    body = h["hir"]
    tests = []
    for st in body["stmts"]:
        if hirq.in_log_macro(st):
            continue
        if st["k"] != "If" or "e" in st:
            return None
        t = st["t"]
        last = (t["stmts"][-1] if t["stmts"] else t.get("expr")) if t["k"] == "Block" else t
        if last is None or last["k"] != "Ret" or nf.nf(last.get("e")) != "false":
            return None
        tests += [(d, oname, False) for d in _disjuncts(st["c"])]
    tail = body.get("expr")
    if tail is None:
        return None
    if nf.nf(tail) != "true":
        tests += [(d, oname, True) for d in _conjuncts(tail)]
    return tests


def _guard_compares(facts, r, f, R=None):
    c = nf.simplify_bool(r["c"], False, R)
    if c is True or c is False:
        return False
    for d in _disjuncts(c):
        if _compares_field(d, f, R=R):
            return True
        ht = _helper_tests(facts, d)
        if ht and any(_compares_field(n, f, o, neg) for (n, o, neg) in ht):
            return True
    return False


def merge_rules(ctx, facts):
    fid = SS + "merge"
    fn = facts.fn(fid)
    t = tree_of(fn)
    fields = param_fields(facts)
    ctx.floor("C05 parameter fields copied by SetSketcher::new", len(fields), 4)
    rej = _rejecting_ifs(fn)
    R = resolver_of(fn)
    effects = [w for (w, f, i) in writes_to_self(fn)] + [n for (n, k) in mutating_self_calls(fn)]
    if not effects:
        ctx.violation("MERGE-b", fid, "no effect", hirq.loc(fn), "merge has no effect on self at all")
        return
    for f in fields:
        guards = [r for r in rej if _guard_compares(facts, r, f, R)]
        if not guards:
            ctx.violation("MERGE-a", fid, "parameter %s not compared" % f, hirq.loc(fn),
                          "no rejecting comparison of self.%s with other.%s precedes the merge: sketches with different %s would be merged" % (f, f, f))
            continue
        bad = [e for e in effects if not any(hir_dominates(t, g["c"], e) for g in guards)]
        if bad:
            ctx.violation("MERGE-a", fid, "mutation before comparing %s" % f, hirq.loc(bad[0]),
                          "`%s` can execute before self.%s is compared with other.%s: a refused merge would leave the receiver changed" % (hirq.show(bad[0])[:60], f, f))
        else:
            ctx.ok("MERGE-a", fid, "self.%s vs other.%s rejected at %s before the first effect" % (f, f, hirq.loc(guards[0])), hirq.loc(guards[0]))
    # MERGE-c
    def _only_params(r):
        c_ = nf.simplify_bool(r["c"], False, R)
        if c_ is True or c_ is False:
            return False
        for d in _disjuncts(c_):
            if any(_compares_field(d, f, R=R) for f in fields):
                continue
            ht = _helper_tests(facts, d)
            if ht and all(any(_compares_field(n, f, o, neg) for f in fields) for (n, o, neg) in ht):
                continue
            return False
        return True
    kw_ = writes_to_self(fn, "k_vec")
    join = kw_[0][0] if kw_ else None
    # the top-level statement of the body that contains the join
    top = None
    if join is not None:
        for st in fn["hir"]["stmts"] + ([fn["hir"]["expr"]] if "expr" in fn["hir"] else []):
            if t.contains(st, join):
                top = st
    for x in user_nodes(fn):
        if x["k"] == "Ret" or (x["k"] == "Match" and x.get("src") == "TryDesugar"):
            if top is not None and (t.contains(top, x) or hir_dominates(t, top, x)):
                # inside or after the join: MERGE-b decides the loop's own exits and conditions
                continue
            ifs = [a_ for a_ in t.ancestors(x) if a_["k"] in ("If", "Match", "Loop", "Closure")]
            if len(ifs) == 1 and any(ifs[0] is r for r in rej) and _only_params(ifs[0]):
                ctx.ok("MERGE-c", fid, "return before the join only on a parameter mismatch", hirq.loc(x))
            else:
                c_ = hirq.show(ifs[0]["c"])[:90] if ifs and ifs[0]["k"] == "If" else hirq.show(x)[:90]
                ctx.violation("MERGE-c", fid, "early exit before the join", hirq.loc(x),
                              "merge can return here before the position-wise max has been taken, under a condition that is not a comparison of "
                              "sketch parameters: compatible sketches would be left unmerged (`%s`)" % c_)
    # MERGE-b
    written = sorted({f for (w, f, i) in writes_to_self(fn)} | {k for (n, k) in mutating_self_calls(fn) if k})
    extra = [f for f in written if f not in ("k_vec", "nb_overflow")]
    if extra:
        ctx.violation("MERGE-b", fid, "merge writes %s" % ",".join(extra), hirq.loc(fn), "merge may only write k_vec and nb_overflow; it also writes %s" % extra)
    kw = writes_to_self(fn, "k_vec")
    if len(kw) != 1 or self_method_calls(fn, "k_vec", None) and any(m.get("recv_ty", "").startswith("&mut ") for m in self_method_calls(fn, "k_vec")):
        ctx.violation("MERGE-b", fid, "register effect", hirq.loc(fn), "expected exactly one element-wise write to k_vec, found %d (or a bulk mutation)" % len(kw))
        return
    (w, _f, idx) = kw[0]
    i = nf.nf(idx[0])
    rhs = nf.nf(w["r"])
    a, b = "self.k_vec[%s]" % i, "other.k_vec[%s]" % i
    okmax = rhs in ("%s.max(%s)" % (a, b), "%s.max(%s)" % (b, a), "std::cmp::max(%s, %s)" % (a, b), "std::cmp::max(%s, %s)" % (b, a),
                    "core::cmp::max(%s, %s)" % (a, b), "core::cmp::max(%s, %s)" % (b, a), "std::cmp::Ord::max(%s, %s)" % (a, b))
    conds = nf.all_conditions(t, w)
    if not okmax and rhs == b and nf.has_cmp(conds, a, ("<",), b):
        okmax = True
        conds = [c for c in conds if c != ("cmp", a, "<", b)]
    loops = t.enclosing_loops(w)
    fl = [f for f in for_loops(fn) if loops and f["loop"] is loops[0]]
    rng_ok = bool(fl) and nf.nf(fl[0]["iter"]) in ("std::ops::Range{start:0, end:self.k_vec.len()}", "std::ops::Range{start:0, end:other.k_vec.len()}") and hirq.show_pat(fl[0]["pat"]) == i
    exits = [k for (k, n) in loop_exits(fn, loops[0]) if k != "iterator-exhausted"] if loops else ["no loop"]
    if okmax and rng_ok and not conds and not exits and len(loops) == 1 and w["k"] == "Assign":
        ctx.ok("MERGE-b", fid, "k_vec[%s] = max(self, other) for %s in 0..k_vec.len()" % (i, i), hirq.loc(w))
    else:
        ctx.violation("MERGE-b", fid, "register join", hirq.loc(w),
                      "expected `self.k_vec[i] = max(self.k_vec[i], other.k_vec[i])` unconditionally for every i in 0..k_vec.len(); found `%s` (range ok: %s, conditions: %s, early exits: %s)"
                      % (nf.nf(w)[:80], rng_ok, conds[:2], exits))


def lower_rules(ctx, facts):
    n = 0
    for fid, fn in facts.fns.items():
        if "hir" not in fn or not (fid.startswith(SS) or fid.startswith("<setsketcher::SetSketcher<I, T, H> as")):
            continue
        # struct-literal initialisation
        for x in hirq.walk(fn["hir"]):
            if x["k"] == "Struct" and hirq.respath(x["res"]).endswith("SetSketcher"):
                for f in x["fields"]:
                    if f["name"] == "lower_k":
                        n += 1
                        if nf.nf(f["e"]) in ("0.0", "0"):
                            ctx.ok("LOWER", fid, "lower_k initialised to 0", hirq.loc(f["e"]))
                        else:
                            ctx.violation("LOWER", fid, "lower_k initial value", hirq.loc(f["e"]), "lower_k must start at 0 (a true lower bound of the zero registers), found %s" % nf.nf(f["e"]))
        from .. import inline as _inline
        if _inline.absorbed(facts, fid):
            continue     # a new private helper whose every call was inlined: its writes are judged in its callers
        for (w, _f, _i) in writes_to_self(fn, "lower_k"):
            n += 1
            name = short(fid)
            t = tree_of(fn)
            if name == "reinit":
                if w["k"] == "Assign" and nf.nf(w["r"]) in ("0.0", "0"):
                    ctx.ok("LOWER", fid, "lower_k = 0 in reinit", hirq.loc(w))
                else:
                    ctx.violation("LOWER", fid, "reinit value", hirq.loc(w), "reinit must set lower_k to 0, found `%s`" % nf.nf(w))
            elif name == "sketch":
                val = nf.strip(w["r"])
                conds = nf.all_conditions(t, w)
                vname = nf.nf(val)
                defs = def_exprs(fn, vname) if val["k"] == "Path" else [val]
                dn = [nf.nf(d).replace(".to_f64().unwrap()", "") for d in defs]
                good_val = bool(dn) and all(d in MINFOLDS for d in dn)
                good_guard = nf.has_cmp(conds, "self.lower_k", ("<",), vname) is not None
                if w["k"] == "Assign" and good_val and good_guard:
                    ctx.ok("LOWER", fid, "lower_k = min-fold(k_vec) under flow > lower_k", hirq.loc(w))
                elif not good_val:
                    ctx.violation("LOWER", fid, "lower_k value", hirq.loc(w),
                                  "lower_k is raised to `%s`, which is not a recognised minimum over all of self.k_vec: the reported lowest register could exceed the true minimum" % (dn[0][:90] if dn else vname))
                else:
                    ctx.violation("LOWER", fid, "lower_k guard", hirq.loc(w), "lower_k must only be raised (`if flow > self.lower_k`); conditions here: %s" % conds[:3])
            else:
                ctx.violation("LOWER", fid, "lower_k written outside new/reinit/sketch", hirq.loc(w), "%s writes lower_k: `%s`" % (fid, nf.nf(w)[:60]))
    # whoever re-zeroes the registers must re-zero the lower bound
    for fid, fn in facts.fns.items():
        if "hir" not in fn or not fid.startswith(SS) or short(fid) in ("new", "sketch", "merge"):
            continue
        zeroes = [w for (w, f, i) in writes_to_self(fn, "k_vec") if nf.strip(w["l"])["k"] == "Field"] + \
                 [m for m in self_method_calls(fn, "k_vec", ["fill", "clear"])]
        if zeroes:
            lows = [w for (w, f, i) in writes_to_self(fn, "lower_k") if w["k"] == "Assign" and nf.nf(w["r"]) in ("0.0", "0")]
            if lows:
                ctx.ok("LOWER", fid, "registers and lower bound are re-zeroed together", hirq.loc(zeroes[0]))
            else:
                ctx.violation("LOWER", fid, "registers re-zeroed without lower_k", hirq.loc(zeroes[0]),
                              "%s resets the registers but leaves lower_k: the reported lowest register then exceeds the true minimum and pruning discards valid updates" % short(fid))
    ctx.floor("C05 lower_k definitions", n, 3)


def run(ctx, facts):
    for k, v in RULES.items():
        ctx.rule(k, v)
    ctx.extra["explanation"] = (
        "Structural clauses of C05: SetSketcher::merge rejects on every copied parameter before its first effect, its only "
        "register effect is the element-wise max over the full range, lower_k is only ever set to 0 or raised to a min-fold of "
        "the registers, and the register writes of SuperMinHash/SetSketcher are guarded improvements of item-derived values.")
    ctx.not_decided[:] = ["exact register equality with the sketch of the union as a value-level fact", "algebraic laws of merge beyond the shape of the join"]
    merge_rules(ctx, facts)
    lower_rules(ctx, facts)
    C04._smh(ctx, facts)
    C04._setsketch(ctx, facts)
    # the join semantics of SuperMinHash needs every item to start from the identity permutation: item_rank must advance
    # once per item whichever entry point feeds it, and the slice entry points must be pure delegations
    ctx.rule("COUNTER", C04.RULES["COUNTER"])
    ctx.rule("DELEG", C04.RULES["DELEG"])
    C04._counter(ctx, facts)
    # a position holds the minimum over items of (r + j) only if every item's draw loop runs until no register can improve:
    # the histogram bound a_upper must be right from the constructor on and follow every register move
    ctx.rule("HISTO", C04.RULES["HISTO"])
    ctx.rule("EXIT", C04.RULES["EXIT"])
    C04._histo(ctx, facts, C04.SMH + "sketch", "smh")
    C04._exit_aupper(ctx, facts, C04.SMH + "sketch")
    ctx.rule("DRAWSEQ", "inside the draw loop of one item every draw on the item's generator is made on every iteration: the sketch of "
                        "a set is the join of the single-item sketches only if an item's values do not depend on the sketch it meets")
    C04.drawseq_rule(ctx, facts, C04.SMH + "sketch")
    C04.drawseq_rule(ctx, facts, C04.SS + "sketch")
    C04.deleg_slice(ctx, facts, C04.SMH + "sketch_slice")
    C04.deleg_slice(ctx, facts, C04.SS + "sketch_slice")
    # every item is offered to the registers, and SetSketch's draw loop is only left when no register can be raised any more
    C04._exit_setsketch(ctx, facts)
    ctx.rule("SKIP", C04.RULES["SKIP"])
    C04.skip_rule(ctx, facts, C04.SMH + "sketch")
    C04.skip_rule(ctx, facts, C04.SS + "sketch")
    # "all interleavings of sketch / merge / further sketch calls": a sketcher brought back by reinit is a new one
    from . import C13
    ctx.rule("REINIT", "reinit re-establishes every live mutated field of SuperMinHash and SetSketcher with the constructor's value (RESET analysis of C13)")
    C13.require_verified_reset(ctx, facts, [C13.SMH, C13.SS], "REINIT")
