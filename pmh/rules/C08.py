"""C08 — densified one-permutation hashing is an unbiased LSH: structural preconditions ONLY (the expectation is not decided)."""
import re

from .. import hirq, nf
from ..rulelib import writes_to_self, resolver_of, check_seeds
from . import C04, C09, C13

OD, RD = C09.OD, C09.RD

RULES = {
    "PRE": "structural preconditions shared with C04/C09: an item is mapped to (value, bin) by a generator seeded from the item hash "
           "(SEED), a bin keeps the smallest value together with its hash under an order-insensitive guard (GUARD, TIE, PAIR), "
           "densification copies (value, hash) pairs from populated bins into empty bins only (DENS-target, DENS-source, PAIR, "
           "BOOKKEEPING), with generators keyed by bin index, sketch size, pass number and constants only (SEED), and reports an "
           "empty stream instead of hanging (EMPTY)",
    "BIN": "(information, not enforced) the value is a fresh Uniform[0,1) sample and the bin a fresh Uniform{0..m-1} sample of the same "
           "per-item generator",
}


def bin_rule(ctx, facts, prefix):
    fid = prefix + "sketch"
    fn = facts.fn(fid)
    R = resolver_of(fn)
    for (w, f, idx) in writes_to_self(fn, "hsketch"):
        v = nf.nf(w["r"], True, res=R)
        k = nf.nf(idx[0], True, res=R)
        mv = re.match(r"^rand_distr::Uniform::<X>::new\(num::zero\(\), num::one\(\)\)\.unwrap\(\)\.sample\((\w+)\)$", v)
        mk = re.match(r"^rand_distr::Uniform::<X>::new\(0, self\.hsketch\.len\(\)\)\.unwrap\(\)\.sample\((\w+)\)$", k)
        if mv and mk and mv.group(1) == mk.group(1):
            ctx.ok("BIN", fid, "value ~ Uniform[0,1), bin ~ Uniform{0..m-1}, same generator %s" % mv.group(1), hirq.loc(w))
        else:
            # other ways of choosing the bin are legitimate (e.g. from the hash itself): information only
            ctx.info("%s: value `%s`, bin `%s` are not the tabled Uniform draws of one generator" % (fid, v[:90], k[:90]))


def run(ctx, facts):
    for k, v in RULES.items():
        ctx.rule(k, v)
    for k in ("GUARD", "TIE", "PAIR", "PROV", "SEED"):
        ctx.rule(k, C04.RULES[k])
    for k in ("DENS-target", "DENS-source", "DENS-SEED", "BOOKKEEPING", "EMPTY"):
        ctx.rule(k, C09.RULES[k])
    ctx.extra["explanation"] = (
        "C08 is an expectation over hash randomness at every fill ratio; that is NOT decided. Decided are the structural "
        "preconditions anchored in its three mechanisms: item -> (value, bin) from a generator seeded by the item hash with the bin "
        "keeping the smallest value and its hash; optimal densification pulling from populated bins in a sequence keyed by the empty "
        "bin only; reverse densification pushing from populated bins to targets keyed by (bin, pass).")
    ctx.not_decided[:] = ["the expectation E[fraction of equal positions] = J at every fill ratio", "independence properties of the ChaCha/Xoshiro streams"]
    table = {k: v for k, v in C04.SEED_TABLE.items() if "densminhash" in k}
    n = check_seeds(ctx, facts, "SEED", table)
    ctx.floor("C08 seeding sites", n, 4)
    for prefix in (OD, RD):
        C04._dens_sketch(ctx, facts, prefix)
        bin_rule(ctx, facts, prefix)
        C09.dens_rules(ctx, facts, prefix)
        C09.dens_seed(ctx, facts, prefix)
        C09.bookkeeping(ctx, facts, prefix)
        C09.empty_guard(ctx, facts, prefix)
    ctx.rule("DELEG", C09.RULES["DELEG"] + " — every element of the slice reaches its bin: the batch entry point is the per-item one applied to each element, then the densification")
    for prefix in (OD, RD):
        C04.deleg_slice(ctx, facts, prefix + "sketch_slice", finisher="densify")
    ctx.rule("U32VIEW", C09.RULES["U32VIEW"] + " (the u32 view keeps the collision structure of the u64 view only if it rehashes all 64 bits of each value)")
    C09.u32view(ctx, facts)
    ctx.rule("REINIT", C09.RULES["REINIT"])
    C13.require_verified_reset(ctx, facts, [C13.OD, C13.RD], "REINIT")
