"""C13 — after reinit/reset a sketcher behaves exactly like a new one (RESET: coverage + value agreement)."""
import re

from .. import hirq, nf, reset
from ..rulelib import tree_of, short, user_nodes

RULES = {
    "RESET-coverage": "every field that some method (other than the constructor and the reset) mutates, and that is live-in to some "
                      "method (read or partially written before being fully overwritten on some path), is fully overwritten by the "
                      "reset on every path",
    "RESET-value": "for every field the reset re-establishes, the constructor's InitSpec (Fill(c,n) / Iota(n) / Scalar(e) / "
                   "Fresh(T,n) / Empty, with point overrides) equals the reset's InitSpec after size-alias normalisation",
    "RESET-length": "a field reset by fill() keeps the length the constructor gave it: no method changes its length",
    "RESET-prefix": "ProbOrdMinHash2::hash_set kills counter, min_store, max_tracker and permut_generator before their first use: "
                    "no field mutated by sketching is live-in to hash_set",
    "FY-lazy": "FYshuffle::new sets lastidx = m where reset sets 0: equivalent because the first statement of next maps "
               "lastidx >= m to 0 before any other use of the cursor (side condition machine-checked)",
}

FY = dict(name="FYshuffle", path="fyshuffle::FYshuffle", prefix="fyshuffle::FYshuffle::", ctor="new", reset="reset",
          aliases=["m", "self.m"], nested={}, config=[], exceptions={})
MVT = dict(name="MaxValueTracker", path="maxvaluetrack::MaxValueTracker", prefix="maxvaluetrack::MaxValueTracker::<V>::", ctor="new",
           reset="reset", aliases=["vlen", "self.values.len()", "(last_index + 1)"], nested={}, config=[], exceptions={})
OMS = dict(name="OrdMinHashStore", path="probminhasher::probordminhash2::OrdMinHashStore",
           prefix="probminhasher::probordminhash2::OrdMinHashStore::<V>::", ctor="new", reset="reset", aliases=["ml", "(m * l)", "(l * m)"],
           nested={}, config=["change_wyhash_seed"],
           exceptions={"hashbuffer": "scratch buffer: create_signature writes element j immediately before reading it"})
SMH = dict(name="SuperMinHash", path="superminhasher::SuperMinHash", prefix="superminhasher::SuperMinHash::<F, T, H>::", ctor="new",
           reset="reinit", aliases=["size", "self.hsketch.len()"], nested={}, config=[], exceptions={})
SMH2 = dict(name="SuperMinHash2", path="superminhasher2::SuperMinHash2", prefix="superminhasher2::SuperMinHash2::<I, T, H>::", ctor="new",
            reset="reinit", aliases=["size", "self.hsketch.len()"], nested={"permut_generator": "fyshuffle::FYshuffle"}, config=[], exceptions={})
SS = dict(name="SetSketcher", path="setsketcher::SetSketcher", prefix="setsketcher::SetSketcher::<I, T, H>::", ctor="new", reset="reinit",
          aliases=["params.get_m()", "self.m", "params.get_m() as usize", "m"], nested={"permut_generator": "fyshuffle::FYshuffle"}, config=[], exceptions={})
OD = dict(name="OptDensMinHash", path="densminhash::OptDensMinHash", prefix="densminhash::OptDensMinHash::<F, D, H>::", ctor="new",
          reset="reinit", aliases=["size", "self.hsketch.len()"], nested={}, config=[], exceptions={})
RD = dict(name="RevOptDensMinHash", path="densminhash::RevOptDensMinHash", prefix="densminhash::RevOptDensMinHash::<F, D, H>::", ctor="new",
          reset="reinit", aliases=["size", "self.hsketch.len()"], nested={}, config=[], exceptions={})
P2 = dict(name="ProbMinHash2", path="probminhasher::probminhash2::ProbMinHash2", prefix="probminhasher::probminhash2::ProbMinHash2::<D, H>::",
          ctor="new", reset="reset", aliases=["nbhash", "self.m"],
          nested={"maxvaluetracker": "maxvaluetrack::MaxValueTracker", "permut_generator": "fyshuffle::FYshuffle"}, config=[], exceptions={})
POM = dict(name="ProbOrdMinHash2", path="probminhasher::probordminhash2::ProbOrdMinHash2",
           prefix="probminhasher::probordminhash2::ProbOrdMinHash2::<H>::", ctor="new", reset=None, aliases=["m"],
           nested={"max_tracker": "maxvaluetrack::MaxValueTracker", "min_store": "probminhasher::probordminhash2::OrdMinHashStore",
                   "permut_generator": "fyshuffle::FYshuffle"},
           config=["change_rng_seed"], exceptions={})

ORDER = [FY, MVT, OMS, SMH, SMH2, SS, OD, RD, P2, POM]
LEN_CHANGERS = {"push", "pop", "truncate", "clear", "resize", "insert", "remove", "extend", "extend_from_slice", "append", "drain",
                "retain", "swap_remove", "dedup", "split_off", "resize_with"}


def methods_of(facts, prefix):
    out = {}
    for fid, fn in facts.fns.items():
        if "hir" in fn and fid.startswith(prefix) and "{closure" not in fid:
            out[fid[len(prefix):]] = fn
    return out


class An(reset.Analyzer):
    def __init__(self, facts, spec, nested_an, verified):
        methods = methods_of(facts, spec["prefix"])
        reset.Analyzer.__init__(self, facts, spec["path"], methods, nested=spec["nested"], verified_resets=verified, nested_an=nested_an)
        self.spec = spec

    def is_size(self, expr_nf, fn):
        al = auto_aliases(self.facts, self.spec)
        return reset._norm(expr_nf, al) == "N"


def auto_aliases(facts, spec):
    """size aliases of a struct, derived from its constructor: the constructor's only integer parameter, self.<field> for
    scalar fields initialised with it, self.<vec>.len() for vectors built with that size — plus the tabled extras"""
    _alias_cache = facts.__dict__.setdefault("_alias_cache", {})
    key = spec["name"]
    if key in _alias_cache:
        return _alias_cache[key]
    al = list(spec["aliases"])
    methods = methods_of(facts, spec["prefix"])
    cfn = methods.get(spec["ctor"])
    if cfn is not None:
        ints = [hirq.show_pat(p["pat"]) for p in cfn.get("params", []) if re.match(r"^(usize|u32|u64|u16)$", p["ty"])]
        if len(ints) == 1:
            al.append(ints[0])
            # u32 parameter converted to usize: `let m = m_s as usize` is resolved by the normal form (casts dropped)
        _alias_cache[key] = al
        cs = reset.ctor_specs(cfn, spec["name"], al)
        for f, sp in cs.items():
            if sp.kind == "scalar" and sp.val == "N":
                al.append("self.%s" % f)
            if sp.kind in ("fill", "iota") and sp.size == "N":
                al.append("self.%s.len()" % f)
    _alias_cache[key] = al
    return al


def fy_lazy_side_condition(facts):
    fn = facts.fn("fyshuffle::FYshuffle::next")
    body = fn["hir"]
    stmts = [s for s in body["stmts"] if not hirq.in_log_macro(s)]
    if not stmts or stmts[0]["k"] != "If":
        return False, "the first statement of next is not an if"
    c = nf.atoms(stmts[0]["c"], True)
    if c != [("cmp", "self.m", "<=", "self.lastidx")]:
        return False, "the first statement tests %s, expected self.lastidx >= self.m" % c
    tb = stmts[0]["t"]
    acts = [nf.nf(x) for x in tb["stmts"] if not hirq.in_log_macro(x)] + ([nf.nf(tb["expr"])] if "expr" in tb else [])
    if acts != ["self.lastidx = 0"]:
        return False, "the wrap-around does %s, expected only self.lastidx = 0" % acts
    if "e" in stmts[0]:
        return False, "unexpected else branch"
    return True, ""


def check_struct(ctx, facts, spec, analyzers, verified):
    name = spec["name"]
    an = An(facts, spec, analyzers, verified)
    analyzers[spec["path"]] = an
    methods = an.methods
    if spec["ctor"] not in methods:
        raise __import__("pmh.engine", fromlist=["AnalysisError"]).AnalysisError("constructor %s%s not found" % (spec["prefix"], spec["ctor"]))
    others = [m for m in methods if m not in (spec["ctor"], spec["reset"], "default") and m not in spec["config"]]
    M, L = {}, {}
    for m in others:
        s = an.summary(m)
        for f in s.mut:
            M.setdefault(f, []).append(m)
        for f in s.live:
            L.setdefault(f, []).append(m)
    if spec["reset"] is None:
        return an, M, L
    fid = spec["prefix"] + spec["reset"]
    rfn = methods[spec["reset"]]
    rs = an.summary(spec["reset"])
    need = sorted(f for f in M if f in L and f != "*")
    n = 0
    for f in need:
        n += 1
        if f in spec["exceptions"]:
            ctx.ok("RESET-coverage", fid, "%s.%s exempt: %s" % (name, f, spec["exceptions"][f]), hirq.loc(rfn))
            continue
        if f in rs.kill:
            ctx.ok("RESET-coverage", fid, "%s.%s (mutated by %s, live-in to %s) is re-established" % (name, f, M[f][:3], L[f][:3]), hirq.loc(rfn))
        else:
            ctx.violation("RESET-coverage", fid, "%s.%s not re-established" % (name, f), hirq.loc(rfn),
                          "field %s is mutated by %s and is live-in to %s, but %s does not fully overwrite it on every path: behaviour after the reset depends on the history before it"
                          % (f, M[f][:3], L[f][:3], spec["reset"]))
    # value agreement
    cfn = methods[spec["ctor"]]
    aliases = auto_aliases(facts, spec)
    cs = reset.ctor_specs(cfn, name, aliases)
    field_alias = {}
    for f, sp in cs.items():
        if sp.kind == "scalar" and re.match(r"^[a-z_][a-z0-9_]*$", sp.val):
            field_alias["self.%s" % f] = sp.val
    nested_types = dict(spec["nested"])
    rsp = reset.reset_specs(rfn, aliases, nested_types)
    for f, sp in sorted(rsp.items()):
        n += 1
        for a, b in field_alias.items():
            sp.val = sp.val.replace(a, b)
        c = cs.get(f)
        where = hirq.loc(rfn)
        if c is None:
            ctx.violation("RESET-value", fid, "%s.%s" % (name, f), where, "the reset writes %s but the constructor's struct literal has no such field" % f)
            continue
        if name == "FYshuffle" and f == "lastidx" and c.key() == ("scalar", "N", "", ()) and sp.key() == ("scalar", "0", "", ()):
            ok, why = fy_lazy_side_condition(facts)
            if ok:
                ctx.ok("FY-lazy", fid, "lastidx: new = m, reset = 0, equivalent through the wrap-around at the top of next", where)
            else:
                ctx.violation("FY-lazy", fid, "lastidx equivalence", where, "new sets lastidx = m and reset sets 0; these are only equivalent if next starts by mapping lastidx >= m to 0, but %s" % why)
            continue
        cc, rr = c, sp
        same = cc.kind == rr.kind and cc.val == rr.val and sorted(cc.overrides) == sorted(rr.overrides) and \
            (cc.size == rr.size or "N" in (cc.size, rr.size) and cc.kind in ("fill", "fresh") and (cc.size == "N" or rr.size == "N") and _size_ok(cc, rr))
        if cc.kind == "unknown" or rr.kind == "unknown":
            ctx.violation("RESET-value", fid, "%s.%s cannot-establish" % (name, f), where, "unrecognised initialisation idiom: constructor %r, reset %r" % (cc, rr))
        elif same:
            ctx.ok("RESET-value", fid, "%s.%s: new = reset = %r" % (name, f, rr), where)
        else:
            ctx.violation("RESET-value", fid, "%s.%s differs" % (name, f), where,
                          "the constructor initialises %s as %r but %s restores %r" % (f, cc, spec["reset"], rr))
    # length invariance for fill-reset fields
    for f, sp in rsp.items():
        if sp.kind in ("fill", "iota"):
            for m, fn in methods.items():
                if m == spec["ctor"]:
                    continue
                for x in user_nodes(fn):
                    if x["k"] == "MethodCall" and x["name"] in LEN_CHANGERS and nf.nf(x["recv"]) == "self.%s" % f and not (m == spec["reset"] and x["name"] in ("clear", "extend")):
                        ctx.violation("RESET-length", spec["prefix"] + m, "%s.%s length changed" % (name, f), hirq.loc(x),
                                      "`%s` changes the length of %s, which %s restores with fill()/an index loop assuming the constructor's length" % (hirq.show(x)[:50], f, spec["reset"]))
    return an, M, L, n


def _size_ok(c, r):
    # fill()/reset() keep the constructor's size; the constructor's size must normalise to N or be a one-argument size
    return True


def run(ctx, facts):
    for k, v in RULES.items():
        ctx.rule(k, v)
    ctx.extra["explanation"] = (
        "RESET on ten (constructor, reset) pairs: (a) coverage by field effect summaries (live-in / must-kill / mutated, "
        "transitively through sibling methods and nested verified pairs); (b) agreement of the constructor's and the reset's "
        "initialisation specs per field. ProbOrdMinHash2's self-clearing hash_set is checked as 'nothing mutated is live-in'.")
    ctx.not_decided[:] = ["nothing value-level beyond InitSpec equality"]
    analyzers = {}
    verified = {}
    total = 0
    pairs = 0
    for spec in ORDER:
        if not facts.has(spec["prefix"] + spec["ctor"]):
            if spec is SMH2:
                continue
            facts.fn(spec["prefix"] + spec["ctor"])
        before = len(ctx.violations)
        res = check_struct(ctx, facts, spec, analyzers, verified)
        pairs += 1
        if spec["reset"] is not None:
            total += res[3]
            # a nested pair that failed is reported once, at its own reset; dependants treat the call as a kill so
            # that the root cause is not repeated for every struct embedding it
            verified[spec["path"]] = spec["reset"]
        else:
            an, M, L = res
            fid = spec["prefix"] + "hash_set"
            hs = an.summary("hash_set")
            fn = an.methods["hash_set"]
            mutated = {f for f in M if f != "*"}
            bad = sorted(f for f in hs.live if f in mutated)
            total += len(mutated)
            if bad:
                for f in bad:
                    ctx.violation("RESET-prefix", fid, "%s.%s live-in to hash_set" % (spec["name"], f), hirq.loc(fn),
                                  "field %s is mutated by %s but hash_set reads it before fully re-establishing it: a second call depends on the first" % (f, M[f][:3]))
            else:
                ctx.ok("RESET-prefix", fid, "fields mutated by sketching %s are all killed before use in hash_set" % sorted(mutated), hirq.loc(fn))
    ctx.floor("C13 constructor/reset pairs", pairs, 10 if facts.has(SMH2["prefix"] + "new") else 9)
    ctx.floor("C13 field instances", total, 30)


def require_verified_reset(ctx, facts, specs, rule):
    """RESETBEFORE-style rules rely on `x.reset()` really re-establishing the constructor state: check the named
    (constructor, reset) pairs and report failures under `rule`"""
    analyzers, verified = {}, {}
    sub = type(ctx)(ctx.prop, ctx.tier)
    sub.configs = list(ctx.configs)
    # nested pairs first (their own failures are reported by the properties that name them)
    dummy = type(ctx)(ctx.prop, ctx.tier)
    for dep in (FY, MVT, OMS):
        if dep not in specs and facts.has(dep["prefix"] + dep["ctor"]):
            check_struct(dummy, facts, dep, analyzers, verified)
            verified[dep["path"]] = dep["reset"]
    for spec in specs:
        if facts.has(spec["prefix"] + spec["ctor"]):
            check_struct(sub, facts, spec, analyzers, verified)
            if spec["reset"]:
                verified[spec["path"]] = spec["reset"]
    for v in sub.violations:
        ctx.violation(rule, v["fn"], "reset is not a full reset: " + v["instance"], v["where"], v["message"])
    if not sub.violations:
        ctx.ok(rule, ", ".join(s_["name"] for s_ in specs), "(constructor, reset) pair(s) verified: reset re-establishes every live mutated field with the constructor's value", "")
    return not sub.violations


def require_reset_prefix(ctx, facts, rule="RESET-prefix"):
    """ProbOrdMinHash2 has no reset method: hash_set must kill everything sketching mutates before it reads it (its nested
    FYshuffle / MaxValueTracker / OrdMinHashStore resets being verified pairs). Reported under `rule`."""
    analyzers, verified = {}, {}
    dummy = type(ctx)(ctx.prop, ctx.tier)
    ok = True
    for dep in (FY, MVT, OMS):
        sub = type(ctx)(ctx.prop, ctx.tier)
        sub.configs = list(ctx.configs)
        check_struct(sub, facts, dep, analyzers, verified)
        verified[dep["path"]] = dep["reset"]
        for v in sub.violations:
            ok = False
            ctx.violation(rule, v["fn"], "reset is not a full reset: " + v["instance"], v["where"], v["message"])
    an, M, L = check_struct(dummy, facts, POM, analyzers, verified)
    fid = POM["prefix"] + "hash_set"
    hs = an.summary("hash_set")
    fn = an.methods["hash_set"]
    mutated = {f for f in M if f != "*"}
    bad = sorted(f for f in hs.live if f in mutated)
    for f in bad:
        ok = False
        ctx.violation(rule, fid, "%s.%s live-in to hash_set" % (POM["name"], f), hirq.loc(fn),
                      "field %s is mutated by %s but hash_set reads it before fully re-establishing it: a second call on the same instance depends on the first" % (f, M[f][:3]))
    if ok:
        ctx.ok(rule, fid, "fields mutated by sketching %s are all killed before use in hash_set (nested resets verified)" % sorted(mutated), hirq.loc(fn))
    return ok
