"""C07 — SetSketch Jaccard bounds: the bounds function returns for every collision fraction in [0,1] without aborting."""
import re

from .. import hirq, nf, panic, slicer
from ..rulelib import tree_of, slicer_of, user_nodes

FID = "setsketcher::SetSketchParams::get_jaccard_bounds"

RULES = {
    "MODEL-PRE": "structural preconditions of the collision model anchored in the property's mechanisms (shared with C04): SetSketcher "
                 "registers are guarded improvements of item-derived values, the draw loop is only left on the two tabled lower-bound "
                 "tests, slots are drawn from a per-item reset permutation, the seed is the item hash. The expectation itself is not decided",
    "PANIC": "get_jaccard_bounds has no panic edge other than its documented precondition: an assertion whose condition depends on the "
             "argument and literals only (jac <= 1). Any other edge — in particular an assertion comparing two computed floats — is a "
             "violation",
}


def precondition_ifs(fn):
    """top-level `if !(c) { panic }` statements whose condition depends on parameters and literals only"""
    sl = slicer_of(fn)
    out = []
    for st in fn["hir"]["stmts"]:
        cands = [st]
        if st["k"] == "Block":
            cands = st["stmts"] + ([st["expr"]] if "expr" in st else [])
        for c in cands:
            if c["k"] == "If" and "e" not in c and nf._diverges(c["t"]):
                roots = {slicer.show_root(r) for r in sl.roots(c["c"])}
                if all(r.startswith(("param ", "literal ")) for r in roots) and any(r.startswith("param ") for r in roots):
                    out.append((c, roots))
    return out


def run(ctx, facts):
    for k, v in RULES.items():
        ctx.rule(k, v)
    ctx.extra["explanation"] = (
        "Decided: (1) the clause 'the bounds function returns for every collision fraction in [0,1] without aborting' — the MIR "
        "panic-edge inventory of get_jaccard_bounds (including std callees with documented panics such as f64::clamp) must consist "
        "of argument-precondition assertions only; (2) structural preconditions of the collision model: the SetSketch register "
        "update, early exits, per-item permutation reset and seeding (a register that depends on streaming order cannot follow "
        "the model). The expectation and the bracketing of J are not decided.")
    ctx.not_decided[:] = ["the collision model", "bracketing of the true Jaccard index", "low <= high as a numeric fact"]
    fn = facts.fn(FID)
    pre = precondition_ifs(fn)
    pre_lines = {(c["sp"][1], c["sp"][2]) for (c, _r) in pre}
    edges = panic.edges_of(facts, FID)
    n = 0
    for e in edges:
        if e["expn"][1] in hirq.LOG_MACROS or e["expn"][0] in hirq.LOG_MACROS:
            continue
        n += 1
        d = "%s:%s" % (e["kind"], e["detail"])
        if e["kind"] == "call" and e["detail"].startswith("panic") and (e["line"], e["col"]) in pre_lines:
            ctx.ok("PANIC", FID, "%s [PRECONDITION: depends on the argument and literals only]" % d[:80], e["where"])
        else:
            cls = "assert on rounded floats" if e["detail"].startswith("panic") else d[:60]
            ctx.violation("PANIC", FID, cls, e["where"],
                          "panic edge `%s` is not an argument precondition: the function can abort for a collision fraction in [0,1] (e.g. an assertion ordering two independently rounded expressions)" % d[:120])
    # in-crate callees
    callees = set()
    for x in user_nodes(fn):
        c = x.get("callee") if x["k"] in ("Call", "MethodCall") else None
        if c and c in facts.fns:
            callees.add(c)
    for c in sorted(callees):
        for e in panic.edges_of(facts, c):
            if e["expn"][1] in hirq.LOG_MACROS:
                continue
            n += 1
            ctx.violation("PANIC", FID, "callee %s: %s" % (c, e["detail"][:50]), e["where"], "the in-crate callee %s has a panic edge `%s`" % (c, e["detail"][:80]))
    ctx.ok("PANIC", FID, "%d panic edge(s) enumerated, %d precondition assertion(s) recognised" % (n, len(pre)), hirq.loc(fn))
    # zero panic edges is a legitimate state (the precondition assert may become an Err); what must not shrink is the body inspected
    from .. import mirq
    ctx.floor("C07 MIR terminators of get_jaccard_bounds inspected for panic edges", len(fn["mir"]["blocks"]) if "blocks" in fn["mir"] else len(list(mirq.calls(fn["mir"]))), 5)
    # structural preconditions of the collision model (C04's SetSketch rules)
    from . import C04, C13
    from ..rulelib import check_seeds
    ctx.rule("GUARD", C04.RULES["GUARD"]); ctx.rule("EXIT", C04.RULES["EXIT"]); ctx.rule("SEED", C04.RULES["SEED"]); ctx.rule("RESETBEFORE", C04.RULES["RESETBEFORE"])
    C04._setsketch(ctx, facts)
    C04._exit_setsketch(ctx, facts)
    C13.require_verified_reset(ctx, facts, [C13.FY], "RESETBEFORE")
    C04._resetbefore(ctx, facts, C04.SS + "sketch")
    check_seeds(ctx, facts, "SEED", {C04.SS + "sketch": C04.SEED_TABLE[C04.SS + "sketch"]})
    # information: lower bound capped by the upper bound
    body = fn["hir"]
    tail = nf.nf(body["expr"]) if "expr" in body else ""
    ctx.info("returned tuple: %s" % tail)
