"""C07 — SetSketch Jaccard bounds: the bounds function returns for every collision fraction in [0,1] without aborting."""
import re

from .. import hirq, nf, panic, slicer
from ..rulelib import tree_of, slicer_of, user_nodes

FID = "setsketcher::SetSketchParams::get_jaccard_bounds"

RULES = {
    "MODEL-PRE": "structural preconditions of the collision model anchored in the property's mechanisms (shared with C04): SetSketcher "
                 "registers are guarded improvements of item-derived values, the draw loop is only left on the two tabled lower-bound "
                 "tests, slots are drawn from a per-item reset permutation, the seed is the item hash. The expectation itself is not decided",
    "PANIC": "get_jaccard_bounds has no panic edge other than its documented precondition: an assertion whose condition depends on the "
             "argument and literals only (jac <= 1). Any other edge — in particular an assertion comparing two computed floats — is a "
             "violation",
}


def precondition_ifs(fn):
    """top-level `if !(c) { panic }` statements whose condition depends on parameters and literals only"""
    sl = slicer_of(fn)
    out = []
    for st in fn["hir"]["stmts"]:
        cands = [st]
        if st["k"] == "Block":
            cands = st["stmts"] + ([st["expr"]] if "expr" in st else [])
        for c in cands:
            if c["k"] == "If" and "e" not in c and nf._diverges(c["t"]):
                roots = {slicer.show_root(r) for r in sl.roots(c["c"])}
                if all(r.startswith(("param ", "literal ")) for r in roots) and any(r.startswith("param ") for r in roots):
                    out.append((c, roots))
    return out


def run(ctx, facts):
    for k, v in RULES.items():
        ctx.rule(k, v)
    ctx.extra["explanation"] = (
        "Decided: (1) the clause 'the bounds function returns for every collision fraction in [0,1] without aborting' — the MIR "
        "panic-edge inventory of get_jaccard_bounds (including std callees with documented panics such as f64::clamp) must consist "
        "of argument-precondition assertions only; (2) structural preconditions of the collision model: the SetSketch register "
        "update, early exits, per-item permutation reset and seeding (a register that depends on streaming order cannot follow "
        "the model). The expectation and the bracketing of J are not decided.")
    ctx.not_decided[:] = ["the collision model", "bracketing of the true Jaccard index", "low <= high as a numeric fact"]
    fn = facts.fn(FID)
    pre = precondition_ifs(fn)
    pre_lines = {(c["sp"][1], c["sp"][2]) for (c, _r) in pre}
    edges = panic.edges_of(facts, FID)
    n = 0
    for e in edges:
        if e["expn"][1] in hirq.LOG_MACROS or e["expn"][0] in hirq.LOG_MACROS:
            continue
        n += 1
        d = "%s:%s" % (e["kind"], e["detail"])
        if e["kind"] == "call" and e["detail"].startswith("panic") and (e["line"], e["col"]) in pre_lines:
            ctx.ok("PANIC", FID, "%s [PRECONDITION: depends on the argument and literals only]" % d[:80], e["where"])
        else:
            cls = "assert on rounded floats" if e["detail"].startswith("panic") else d[:60]
            ctx.violation("PANIC", FID, cls, e["where"],
                          "panic edge `%s` is not an argument precondition: the function can abort for a collision fraction in [0,1] (e.g. an assertion ordering two independently rounded expressions)" % d[:120])
    # in-crate callees
    callees = set()
    for x in user_nodes(fn):
        c = x.get("callee") if x["k"] in ("Call", "MethodCall") else None
        if c and c in facts.fns:
            callees.add(c)
    for c in sorted(callees):
        for e in panic.edges_of(facts, c):
            if e["expn"][1] in hirq.LOG_MACROS:
                continue
            n += 1
            ctx.violation("PANIC", FID, "callee %s: %s" % (c, e["detail"][:50]), e["where"], "the in-crate callee %s has a panic edge `%s`" % (c, e["detail"][:80]))
    ctx.ok("PANIC", FID, "%d panic edge(s) enumerated, %d precondition assertion(s) recognised" % (n, len(pre)), hirq.loc(fn))
    # zero panic edges is a legitimate state (the precondition assert may become an Err); what must not shrink is the body inspected
    from .. import mirq
    ctx.floor("C07 MIR terminators of get_jaccard_bounds inspected for panic edges", len(fn["mir"]["blocks"]) if "blocks" in fn["mir"] else len(list(mirq.calls(fn["mir"]))), 5)
    # structural preconditions of the collision model (C04's SetSketch rules)
    from . import C04, C13
    from ..rulelib import check_seeds
    ctx.rule("GUARD", C04.RULES["GUARD"]); ctx.rule("EXIT", C04.RULES["EXIT"]); ctx.rule("SEED", C04.RULES["SEED"]); ctx.rule("RESETBEFORE", C04.RULES["RESETBEFORE"])
    C04._setsketch(ctx, facts)
    C04._exit_setsketch(ctx, facts)
    ctx.rule("SKIP", C04.RULES["SKIP"])
    C04.skip_rule(ctx, facts, C04.SS + "sketch")
    C04.regvalue_rule(ctx, facts)
    C04.spacing_rule(ctx, facts)
    # the pruning bound must stay below every register, or draws that would raise a register are discarded
    from . import C05
    ctx.rule("LOWER", C05.RULES["LOWER"])
    C05.lower_rules(ctx, facts)
    # a merged sketch follows the model of the union only if the join really took place for every pair of compatible sketches
    for k_ in ("MERGE-a", "MERGE-b", "MERGE-c"):
        ctx.rule(k_, C05.RULES[k_])
    C05.merge_rules(ctx, facts)
    C13.require_verified_reset(ctx, facts, [C13.FY], "RESETBEFORE")
    # a sketcher reused after reinit must follow the same model as a new one (stale registers or a stale pruning bound do not)
    ctx.rule("REINIT", "SetSketcher::reinit re-establishes every live mutated field with the constructor's value (RESET analysis of C13)")
    C13.require_verified_reset(ctx, facts, [C13.SS], "REINIT")
    C04._resetbefore(ctx, facts, C04.SS + "sketch")
    check_seeds(ctx, facts, "SEED", {C04.SS + "sketch": C04.SEED_TABLE[C04.SS + "sketch"]})
    # information: lower bound capped by the upper bound
    body = fn["hir"]
    tail = nf.nf(body["expr"]) if "expr" in body else ""
    ctx.info("returned tuple: %s" % tail)
    # the collision fraction the bounds are applied to is computed by jaccard::get_jaccard_index_estimate: equal registers / m
    from . import C14
    ctx.rule("EST", C14.RULES["EST"])
    C14.est_template(ctx, facts, "jaccard::get_jaccard_index_estimate")
    ctor_sib(ctx, facts)
    bounds_rule(ctx, facts)


def _minmax(e, R):
    """flatten nested max/min (method or function form): (core nodes, [(op, operand node)])"""
    from .. import nf as _nf
    e = _nf.strip_casts(e)
    for _ in range(8):
        if e["k"] == "Path" and "local" in e["res"] and R.lookup(e["res"]["local"], e) is not None:
            e = _nf.strip_casts(R.lookup(e["res"]["local"], e))
    if e["k"] == "MethodCall" and e["name"] in ("max", "min") and len(e["args"]) == 1:
        a, b = e["recv"], e["args"][0]
        op = e["name"]
    elif e["k"] == "Call" and (e.get("callee", "").endswith("::max") or e.get("callee", "").endswith("::min")) and len(e["args"]) == 2:
        a, b = e["args"]
        op = e["callee"][-3:]
    else:
        return [(None, e)]
    return [(op if o is None else o, x) for (o, x) in _minmax(a, R)] + [(op if o is None else o, x) for (o, x) in _minmax(b, R)]


def bounds_rule(ctx, facts):
    """BOUNDS: get_jaccard_bounds(p) returns (max(0, 2 (b^(p/2+1/2) - 1)/(b-1) - 1) [capped by the upper end], (b^p - 1)/(b-1)) —
    the statement's formulas — decided as equalities of rational functions in which powers of b are merged
    (b^(p/2)·b^(p/2) = b^p, b^(p/2)·sqrt(b) = b^(p/2+1/2)); pmh/ratfn.py"""
    from .. import ratfn
    from ..rulelib import resolver_of
    ctx.rule("BOUNDS", "get_jaccard_bounds(p) returns J_up = (b^p - 1)/(b - 1) and J_low = max(0, 2(b^(p/2+1/2) - 1)/(b - 1) - 1), the lower end "
                       "possibly capped by the upper one: equality of rational functions with powers of b merged")
    fn = facts.fn(FID)
    R = resolver_of(fn)
    body = fn["hir"]
    tail = nf.strip(body["expr"]) if "expr" in body else None
    if tail is None or tail["k"] != "Tup" or len(tail["es"]) != 2 or len(fn.get("params", [])) < 2:
        ctx.violation("BOUNDS", FID, "cannot-establish: returned pair", hirq.loc(fn), "get_jaccard_bounds does not end in a 2-tuple")
        return
    pname = hirq.show_pat(fn["params"][1]["pat"])
    B = ratfn.pow_atom
    one = (ratfn.ONE, ratfn.ONE)

    def sub(a, b):
        return (ratfn.p_add(ratfn.p_mul(a[0], b[1]), ratfn.p_mul(b[0], a[1]), -1), ratfn.p_mul(a[1], b[1]))

    def div(a, b):
        return (ratfn.p_mul(a[0], b[1]), ratfn.p_mul(a[1], b[0]))
    bm1 = sub(B("1"), one)
    JUP = div(sub(B("p"), one), bm1)
    two = (ratfn.p_const(2), ratfn.ONE)
    h = div(sub(B("p/2 + 1/2"), one), bm1)
    JLOW = sub((ratfn.p_mul(two[0], h[0]), h[1]), one)

    def rp(e):
        try:
            return ratfn.rat_pow(e, "self.b", R, rename={pname: "p"})
        except ratfn.NotRational as ex:
            return None
    hi = rp(tail["es"][1])
    if hi is not None and ratfn.equal_pow(hi, JUP):
        ctx.ok("BOUNDS", FID, "upper end == (b^p - 1)/(b - 1)", hirq.loc(tail["es"][1]))
    else:
        ctx.violation("BOUNDS", FID, "upper end", hirq.loc(tail["es"][1]),
                      "the upper end is `%s`, expected (b^p - 1)/(b - 1)" % (ratfn.show((ratfn.merge_powers(hi[0]), ratfn.merge_powers(hi[1])))[:140] if hi else nf.nf(tail["es"][1], True, res=R)[:140]))
    parts = _minmax(tail["es"][0], R)
    cores, zero, cap, bad = [], False, 0, []
    for (op, x) in parts:
        r_ = rp(x)
        if r_ is None:
            bad.append(nf.nf(x, True)[:60])
        elif op == "max" and ratfn.equal_pow(r_, (ratfn.ZERO, ratfn.ONE)):
            zero = True
        elif op == "min" and ratfn.equal_pow(r_, JUP):
            cap += 1
        elif ratfn.equal_pow(r_, JLOW):
            cores.append(x)
        else:
            bad.append("%s(%s)" % (op or "", ratfn.show((ratfn.merge_powers(r_[0]), ratfn.merge_powers(r_[1])))[:100]))
    if len(cores) == 1 and zero and not bad:
        ctx.ok("BOUNDS", FID, "lower end == max(0, 2(b^(p/2+1/2) - 1)/(b - 1) - 1)%s" % (" capped by the upper end" if cap else ""), hirq.loc(tail["es"][0]))
    else:
        ctx.violation("BOUNDS", FID, "lower end", hirq.loc(tail["es"][0]),
                      "the lower end is not max(0, 2(b^(p/2+1/2) - 1)/(b - 1) - 1) [optionally .min(upper end)]: %s"
                      % ("unexpected operand(s) %s" % bad if bad else ("no max with 0" if not zero else "%d core term(s)" % len(cores))))


def ctor_sib(ctx, facts):
    """CTOR-SIB: SetSketcher::default() builds, field by field, what SetSketcher::new(SetSketchParams::default(), default hasher)
    builds. The getters of the parameter object are replaced by the literals of SetSketchParams::default() on both sides, so
    `m = 4096` in one and `params.get_m()` in the other compare equal, and a derived field (lnb = ln b) computed by a different
    expression in one of the two does not."""
    import re as _re
    from ..rulelib import resolver_of
    ctx.rule("CTOR-SIB", "SetSketcher::default() initialises every field with the same expression over the parameters as "
                         "SetSketcher::new does (getters of SetSketchParams::default() evaluated to its literals on both sides)")
    PD = "<setsketcher::SetSketchParams as std::default::Default>::default"
    SD = "<setsketcher::SetSketcher<I, T, H> as std::default::Default>::default"
    SN = "setsketcher::SetSketcher::<I, T, H>::new"
    pfn = facts.fn(PD)
    D = {}
    for x in hirq.walk(pfn["hir"]):
        if x["k"] == "Struct" and hirq.respath(x["res"]).endswith("SetSketchParams"):
            for f in x["fields"]:
                g = facts.fns.get("setsketcher::SetSketchParams::get_%s" % f["name"])
                if g is not None and nf.nf(g["hir"]).strip("{}").strip() == "self.%s" % f["name"]:
                    v_ = nf.nf(f["e"], True)
                    D[f["name"]] = v_ if _re.match(r"^[\w.]+$", v_) else "(%s)" % v_
    if len(D) < 4:
        ctx.violation("CTOR-SIB", PD, "cannot-establish", hirq.loc(pfn), "SetSketchParams::default() / its getters are not the plain literals and field reads expected (found %s)" % sorted(D))
        return

    def fields(fid, pattern):
        fn = facts.fn(fid)
        R = resolver_of(fn)
        out = {}
        for x in hirq.walk(fn["hir"]):
            if x["k"] == "Struct" and hirq.respath(x["res"]).split("<")[0].endswith("SetSketcher"):
                for f in x["fields"]:
                    s_ = nf.nf(f["e"], True, res=R)
                    out[f["name"]] = _re.sub(pattern, lambda m_: D.get(m_.group(1), m_.group(0)), s_)
        return fn, out
    nfn, a = fields(SN, r"\b%s\.get_(\w+)\(\)" % _re.escape(hirq.show_pat(facts.fn(SN)["params"][0]["pat"])))
    dfn, b = fields(SD, r"std::default::Default::default\(\)\.get_(\w+)\(\)")
    others = [hirq.show_pat(p["pat"]) for p in nfn["params"][1:]]
    n = 0
    for f in sorted(set(a) | set(b)):
        if f not in a or f not in b:
            ctx.violation("CTOR-SIB", SD, "field %s" % f, hirq.loc(dfn), "field %s is initialised by only one of new / default" % f)
            continue
        if any(_re.search(r"\b%s\b" % _re.escape(o), a[f]) for o in others):
            continue        # taken from another argument of new (the hasher)
        n += 1
        if a[f] == b[f]:
            ctx.ok("CTOR-SIB", SD, "%s = %s in both constructors" % (f, a[f][:60]), hirq.loc(dfn))
        else:
            ctx.violation("CTOR-SIB", SD, "field %s differs from new" % f, hirq.loc(dfn),
                          "SetSketcher::default() initialises %s as `%s` where SetSketcher::new gives `%s` for the default parameters: a default sketcher "
                          "would not follow the model of the parameters it reports" % (f, b[f][:100], a[f][:100]))
    ctx.floor("CTOR-SIB fields compared", n, 8)
