"""C17 — the lazy shuffle: v is only ever permuted or set to identity; reset == new; one cursor increment per draw."""
from .. import hirq, nf, slicer
from ..rulelib import tree_of, user_nodes, writes_to_self, self_method_calls, hir_dominates, def_exprs
from . import C13

FY = "fyshuffle::FYshuffle::"

RULES = {
    "WRITERS": "FYshuffle.v is written only by new ((0..m).collect()), by reset (v[i] = i over 0..m) and by next through Vec::swap: it "
               "is a permutation of 0..m at all times",
    "RESET": "FYshuffle (new, reset) is a verified pair: v = Iota(m) and the cursor are re-established (shared with C13)",
    "COUNTER": "next increments lastidx exactly once, unconditionally; the only other writes are the wrap-around to 0 under "
               "lastidx >= m at the top of next and reset's = 0",
    "DRAWSHAPE": "next returns v[idx] read before the swap of positions idx and lastidx, and the increment follows the swap",
}


def exchange_of(fn):
    """(node, a, b) for the single exchange of two positions of self.v in `fn`: `self.v.swap(a, b)`, or written by hand as
    `self.v[a] = X; self.v[b] = Y` where X was read from self.v[b] and Y from self.v[a] before either write. a, b are nodes."""
    from ..rulelib import resolver_of
    t = tree_of(fn)
    R = resolver_of(fn)
    sw = self_method_calls(fn, "v", ["swap"])
    ws = [(w, idx) for (w, f, idx) in writes_to_self(fn, "v")]
    if len(sw) == 1 and not ws:
        return (sw[0], sw[0]["args"][0], sw[0]["args"][1], [])
    if not sw and len(ws) == 2 and all(w["k"] == "Assign" and len(idx) == 1 for (w, idx) in ws):
        (w1, i1), (w2, i2) = ws
        a, b = nf.nf(i1[0], True, res=R), nf.nf(i2[0], True, res=R)
        x, y = nf.nf_def(w1["r"], R), nf.nf_def(w2["r"], R)
        # the values written were read (into immutable locals) before the first write
        def read_before(w):
            r = nf.strip_casts(w["r"])
            if r["k"] != "Path" or "local" not in r["res"]:
                return False
            let = R.lets.get(r["res"]["local"])
            return let is not None and hir_dominates(t, let, w1) and hir_dominates(t, let, w2)
        if a != b and x == "self.v[%s]" % b and y == "self.v[%s]" % a and read_before(w1) and read_before(w2) and t.parent.get(id(w1)) is t.parent.get(id(w2)):
            return (w1, i1[0], i2[0], [w1, w2])
    return None


def run(ctx, facts):
    for k, v in RULES.items():
        ctx.rule(k, v)
    ctx.extra["explanation"] = (
        "Structural clauses of C17: who may write the permutation array and with which operation, reset == new for FYshuffle "
        "(the mutant the tests cannot see: a reset that restores the cursor but not the permutation), exactly one cursor increment "
        "per draw, and the read/swap/increment order of next.")
    ctx.not_decided[:] = ["uniformity over the m! orders", "that the drawn index lies in [lastidx, m) at the top of the unit interval (floating point)"]
    methods = C13.methods_of(facts, FY)
    n = 0
    from .. import inline
    for name, fn in methods.items():
        fid = FY + name
        if inline.absorbed(facts, fid):
            continue     # a new private helper whose every call was inlined: its writes are judged in its callers
        ex = exchange_of(fn) if name == "next" else None
        for (w, f, idx) in writes_to_self(fn, "v"):
            n += 1
            if name == "reset":
                continue     # checked by RESET (Iota over the full range)
            if ex is not None and any(w is x_ for x_ in ex[3]):
                ctx.ok("WRITERS", fid, "v[%s] written as one half of an exchange of two positions" % nf.nf(idx[0], True), hirq.loc(w))
                continue
            ctx.violation("WRITERS", fid, "v assigned", hirq.loc(w), "`%s` assigns to the permutation array outside reset" % nf.nf(w)[:60])
        for m in self_method_calls(fn, "v"):
            if not m.get("recv_ty", "").startswith("&mut "):
                continue
            n += 1
            if name == "reset":
                continue     # whatever reset does to v is checked by RESET (it must re-establish Iota over the full range)
            if name == "next" and m["name"] == "swap":
                ctx.ok("WRITERS", fid, "v.swap(%s)" % ", ".join(nf.nf(a) for a in m["args"]), hirq.loc(m))
            else:
                ctx.violation("WRITERS", fid, "v mutated by %s" % m["name"], hirq.loc(m), "`%s` mutates the permutation array with an operation other than swap" % hirq.show(m)[:60])
        for x in user_nodes(fn):
            if x["k"] == "AddrOf" and x["mut"] and slicer.base_place(x["e"])[:2] == ("self", "v"):
                ctx.violation("WRITERS", fid, "&mut v escapes", hirq.loc(x), "a mutable reference to the permutation array is created")
    ctx.floor("C17 writers of v", n, 2)
    # RESET pair
    analyzers, verified = {}, {}
    C13.check_struct(ctx, facts, C13.FY, analyzers, verified)
    # COUNTER
    nx = facts.fn(FY + "next")
    t = tree_of(nx)
    incs = [(w, f) for (w, f, i) in writes_to_self(nx, "lastidx")]
    from ..rulelib import resolver_of
    R = resolver_of(nx)
    # `lastidx += 1`, or `lastidx = lastidx + 1` where the right-hand side may go through an immutable local that still
    # equals lastidx at that point (the resolver is position aware)
    plus = [w for (w, f) in incs if (w["k"] == "AssignOp" and w["op"] == "+=" and nf.nf(w["r"]) == "1")
            or (w["k"] == "Assign" and nf.nf(w["r"], True, res=R).replace(" ", "") in ("(self.lastidx+1)", "(1+self.lastidx)"))]
    zero = [w for (w, f) in incs if w["k"] == "Assign" and nf.nf(w["r"]) == "0"]
    other = [w for (w, f) in incs if w not in plus and w not in zero]
    body = nx["hir"]
    # unconditional: a top-level statement that no earlier guard clause (`if .. { return .. }`) can skip
    if len(plus) == 1 and plus[0] in body["stmts"] and not other and not nf.control_facts(t, plus[0], res=R):
        ctx.ok("COUNTER", FY + "next", "one unconditional lastidx += 1 per draw", hirq.loc(plus[0]))
    else:
        ctx.violation("COUNTER", FY + "next", "cursor increment", hirq.loc(nx), "expected exactly one unconditional `self.lastidx += 1` in next; found %d increment(s), %d other write(s)" % (len(plus), len(other)))
    ok, why = C13.fy_lazy_side_condition(facts)
    if ok and len(zero) == 1:
        ctx.ok("COUNTER", FY + "next", "wrap-around lastidx = 0 only under lastidx >= m at the top of next", hirq.loc(zero[0]))
    else:
        ctx.violation("COUNTER", FY + "next", "wrap-around", hirq.loc(nx), "the cursor is reset inside next other than by the leading `if lastidx >= m { lastidx = 0 }`: %s" % (why or "%d zero writes" % len(zero)))
    for name, fn in methods.items():
        if name in ("next", "reset", "new") or inline.absorbed(facts, FY + name):
            continue
        for (w, f, i) in writes_to_self(fn, "lastidx"):
            ctx.violation("COUNTER", FY + name, "cursor written", hirq.loc(w), "%s writes the cursor" % name)
    # IDXRANGE
    ctx.rule("IDXRANGE", "the drawn index is lastidx + trunc(xsi * (m - lastidx)) with xsi a Uniform[0,1) f64 sample, the truncation applied to "
                         "the product alone and the offset added in integer arithmetic (or an integer range sample lastidx..m). Lemma: for x a "
                         "multiple of 2^-53 in [0,1) and an integer n < 2^53 the rounded product x*n is < n, so the index is in [lastidx, m-1]; "
                         "adding the offset in floating point loses this (the sum can round up to m)")
    from ..rulelib import resolver_of
    R = resolver_of(nx)
    RNG = hirq.show_pat(nx["params"][1]["pat"])
    ex = exchange_of(nx)
    idx_forms = []
    if ex is not None:
        idx_forms = [nf.nf(a, casts=False, res=R) for a in (ex[1], ex[2]) if nf.nf(a, True, res=R) != "self.lastidx"]
    canon = lambda s_: s_.replace(" ", "")
    U = "self.unif_01.sample(%s)" % RNG
    good_forms = {canon("(self.lastidx + ((((self.m - self.lastidx) as f64) * %s) as usize))" % U), canon("(self.lastidx + ((%s * ((self.m - self.lastidx) as f64)) as usize))" % U),
                  canon("(((((self.m - self.lastidx) as f64) * %s) as usize) + self.lastidx)" % U), canon("((((self.m - self.lastidx) as f64) * %s) as usize + self.lastidx)" % U)}
    okidx = len(idx_forms) == 1 and canon(idx_forms[0]) in good_forms
    ctor = facts.fn(FY + "new")
    Rc = resolver_of(ctor)
    unif = [nf.nf(f["e"], True, res=Rc) for x in hirq.walk(ctor["hir"]) if x["k"] == "Struct" for f in x["fields"] if f["name"] == "unif_01"]
    okx = unif in (["rand_distr::Uniform::<X>::new(0.0, 1.0).unwrap()"], ["rand::distr::Uniform::<X>::new(0.0, 1.0).unwrap()"])
    if okidx and okx:
        ctx.ok("IDXRANGE", FY + "next", "idx = lastidx + trunc(U * (m - lastidx)), U ~ Uniform[0,1)", hirq.loc(nx))
    else:
        ctx.violation("IDXRANGE", FY + "next", "index formula", hirq.loc(nx),
                      "the drawn index is `%s` (unif_01 = %s): not the shape for which idx in [lastidx, m-1] is guaranteed — e.g. adding lastidx in floating point lets the sum round up to m (out-of-bounds for a generator output at the top of the unit interval)"
                      % (idx_forms, unif))
    # DRAWSHAPE
    swaps = [ex[0]] if ex is not None else []
    good = False
    msg = ""
    if len(swaps) == 1 and "expr" in body:
        tail = nf.strip(body["expr"])
        # what the returned local WAS computed from (its initialiser, read at the position of its `let`)
        d_ = R.defs.get(tail["res"]["local"]) if tail["k"] == "Path" and "local" in tail["res"] else None
        ret = nf.nf(d_ if d_ is not None else body["expr"], True, res=R)
        args = {nf.nf(a, True, res=R) for a in (ex[1], ex[2])}
        other = [a for a in args if a != "self.lastidx"]
        # the returned value must have been read before the swap: it is a local whose let precedes the swap
        read_before = False
        if tail["k"] == "Path" and "local" in tail["res"]:
            lets = [x for x in user_nodes(nx) if x["k"] == "Let" and x["pat"]["k"] == "Bind" and x["pat"]["id"] == tail["res"]["local"]]
            read_before = bool(lets) and hir_dominates(t, lets[0], swaps[0])
        if len(other) == 1 and "self.lastidx" in args and ret == "self.v[%s]" % other[0] and read_before and plus and hir_dominates(t, swaps[0], plus[0]):
            good = True
        else:
            msg = "swap(%s) / returned %s / order of read, swap, increment" % (sorted(a[:40] for a in args), ret[:60])
    if good:
        ctx.ok("DRAWSHAPE", FY + "next", "returns v[idx] read before v.swap(idx, lastidx); increment after the swap", hirq.loc(swaps[0]))
    else:
        ctx.violation("DRAWSHAPE", FY + "next", "draw shape", hirq.loc(nx), "next is not `val = v[idx]; v.swap(idx, lastidx); lastidx += 1; val`: %s" % msg)
