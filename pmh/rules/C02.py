"""C02 — a ProbMinHash signature is a function of the weighted set alone (structural clauses)."""
import re

from .. import hirq, nf, proto, slicer
from ..rulelib import (resolver_of, while_body, check_seeds, check_roots, tree_of, slicer_of, user_nodes, writes_to_self, self_method_calls,
                       hir_dominates, for_loops, loop_exits, is_max_bound, mutating_self_calls, short)

P2 = "probminhasher::probminhash2::ProbMinHash2::<D, H>::"
P3 = "probminhasher::probminhash3::ProbMinHash3::<D, H>::"
P3A = "probminhasher::probminhash3::ProbMinHash3a::<D, H>::"
SHA = "probminhasher::probminhash3sha::ProbMinHash3aSha::<D>::"

ITEM = ["param #1:*", "self.b_hasher"]
MAPK = ["param #1:*.0", "self.b_hasher"]
SHAK = ["param #1:*.0", "call *Digest>::new"]

SEED_TABLE = {
    P2 + "hash_item": [dict(callee="seed_from_u64", allowed=ITEM, required=["param #1:*"])],
    P3 + "hash_item": [dict(callee="seed_from_u64", allowed=ITEM, required=["param #1:*"])],
    P3A + "hash_weigthed_idxmap": [dict(callee="seed_from_u64", allowed=MAPK, required=["param #1:*.0"])],
    P3A + "hash_weigthed_hashmap": [dict(callee="seed_from_u64", allowed=MAPK, required=["param #1:*.0"])],
    SHA + "hash_weigthed_idxmap": [dict(callee="from_seed", allowed=SHAK, required=["param #1:*.0"])],
    SHA + "hash_weigthed_hashmap": [dict(callee="from_seed", allowed=SHAK, required=["param #1:*.0"])],
}

# functions that run the race: (fn, tracker field, allowed roots of the value stored in the signature)
RACE_FNS = [
    (P2 + "hash_item", ["param #1:*"]),
    (P3 + "hash_item", ["param #1:*"]),
    (P3A + "hash_weigthed_idxmap", ["param #1:*.0", "self.to_be_processed.0"]),
    (P3A + "hash_weigthed_hashmap", ["param #1:*.0", "self.to_be_processed.0"]),
    (SHA + "hash_weigthed_idxmap", ["param #1:*.0", "self.to_be_processed.0"]),
    (SHA + "hash_weigthed_hashmap", ["param #1:*.0", "self.to_be_processed.0"]),
]
TRACKER = "maxvaluetracker"

PROTO_FNS = [P3 + "hash_item", P3A + "hash_weigthed_idxmap", P3A + "hash_weigthed_hashmap",
             SHA + "hash_weigthed_idxmap", SHA + "hash_weigthed_hashmap"]

DELEG_FNS = [  # (entry point, item method)
    (P2 + "hash_wset", "hash_item"), (P2 + "hash_weigthed_hashmap", "hash_item"),
    (P3 + "hash_wset", "hash_item"), (P3 + "hash_weigthed_idxmap", "hash_item"), (P3 + "hash_weigthed_hashmap", "hash_item"),
]

SIG_STRUCT_WRITERS = {  # struct prefix -> functions allowed to write self.signature (besides the race functions)
    P2: ["new", "reset"], P3: ["new"], P3A: ["new"], SHA: ["new"],
}

RULES = {
    "SEED": "the per-item generator is seeded from a value whose backward slice reaches only the item key and the "
            "sketcher's BuildHasherDefault (Sha variant: the item key through Sig/Sha512_256) — never the weight, a loop "
            "index or tracker state; and it must reach the item key",
    "RNGPROTO": "the CFG path language of calls on the per-item generator (S seed, E ExpRestricted01::sample, U "
                "Uniform<usize>::sample, P push to to_be_processed, K keep) is accepted by the DFA 'after S or U comes E "
                "or S; after E comes U or S; P/K only directly after a U' — the same draw order in 3, 3a and 3aSha",
    "GUARD": "every write signature[k] = key is control-dependent on h < maxvaluetracker.get_value(k) (same k) and in the "
             "same block as maxvaluetracker.update(k, h) (same k, same h); every tracker update is paired with such a "
             "write; the value written depends on the item key only",
    "WRITERS": "self.signature is written only by the race functions, new and reset",
    "EXIT": "every loop exit, and every condition that decides whether an item is processed, deferred or kept, compares a "
            "race value with an unmodified maxvaluetracker.get_max_value() (exit on >=, continue on < or <=), or is the "
            "register guard, or the emptiness test of the deferral buffer",
    "DELEG": "hash_wset / hash_weigthed_idxmap / hash_weigthed_hashmap of ProbMinHash2/3 call hash_item exactly once per "
             "element with the element's key and weight unchanged and have no other effect on self",
    "CLONE": "the IndexMap and HashMap entry points of 3a (and of 3aSha) are each judged by every rule above on their own (that is "
             "what decides entry-point independence); their normal forms are also compared — identical today — and a textual "
             "difference is reported as a violation only together with another finding in one of the two, as information otherwise "
             "(a one-sided behaviour-preserving rewrite differs too); agreement of 3a with 3aSha is information only",
    "BAND": "the band (unit interval) counter visits band 1 first and advances by one in ProbMinHash3 (i from 1, band i) and in "
            "3a/3aSha (pass counter from 2, band i-1) alike, and 3a's keep filters test the lower end of the next band",
    "COMPACT": "the deferral buffer of 3a/3aSha is compacted in place: kept items are written at a position that starts at 0 in every "
               "pass and advances with each kept item, and the buffer is truncated to that position after the pass",
    "RESETBEFORE": "in ProbMinHash2::hash_item permut_generator.reset() dominates every permut_generator.next()",
    "TRACKERSHAPE": "MaxValueTracker::get_max_value returns values[last_index]; is_update_possible(v) returns v < "
                    "values[last_index]; get_value(k) returns values[k]",
}


def _seeding_helper(facts, callee):
    """a new private helper (inlined into its callers at HIR level, so SEED judges its seed there) that returns the per-item
    generator: its own MIR seeds a generator and makes no draw on it — for RNGPROTO the call is the S event"""
    from .. import inline, mirq
    f = facts.fns.get(callee)
    if f is None or "mir" not in f or not inline.absorbed(facts, callee) or proto.GEN not in str(f.get("ret", "")):
        return False
    evs = [proto.event_of(t_) for (_i, t_) in mirq.calls(f["mir"])]
    evs = [e for e in evs if e]
    return "S" in evs and all(e == "S" for e in evs)


def _guard_pair(ctx, facts, fid, allowed_val):
    fn = facts.fn(fid)
    t = tree_of(fn)
    sl = slicer_of(fn)
    writes = writes_to_self(fn, "signature")
    updates = [n for n in self_method_calls(fn, TRACKER, ["update"])]
    paired_updates = set()
    R = resolver_of(fn)
    for (w, _f, idx) in writes:
        where = hirq.loc(w)
        if w["k"] != "Assign" or len(idx) != 1:
            ctx.violation("GUARD", fid, "signature write of unexpected shape", where, "expected `self.signature[k] = key`, found %s" % hirq.show(w)[:80])
            continue
        k = nf.nf(idx[0], casts=True, res=R)
        conds = nf.control_facts(t, w, res=R)
        # the guard: (h < self.maxvaluetracker.get_value(k))
        h = None
        for it in conds:
            if it[0] == "cmp" and it[2] == "<" and it[3] == "self.%s.get_value(%s)" % (TRACKER, k):
                h = it[1]
        if h is None:
            ctx.violation("GUARD", fid, "signature[%s] write not guarded" % k, where,
                          "the write %s is not control-dependent on `h < self.%s.get_value(%s)`; enclosing conditions: %s"
                          % (hirq.show(w)[:60], TRACKER, k, [c for c in conds][:4]))
            continue
        # the paired tracker update in the same block
        blk = t.parent.get(id(w))
        pair = None
        for u in updates:
            if t.parent.get(id(u)) is blk and len(u["args"]) == 2 and nf.nf(u["args"][0], True, res=R) == k and nf.nf(u["args"][1], True, res=R) == h:
                pair = u
        if pair is None:
            ctx.violation("GUARD", fid, "signature[%s] write without paired tracker update" % k, where,
                          "no `self.%s.update(%s, %s)` in the same block as the signature write" % (TRACKER, k, h))
            continue
        paired_updates.add(id(pair))
        ctx.ok("GUARD", fid, "signature[%s] = .. under %s < get_value(%s), paired with update(%s, %s)" % (k, h, k, k, h), where)
        check_roots(ctx, "GUARD", fid, "value stored in signature[%s]" % k, where, sl.roots(w["r"]), allowed_val, [])
    for u in updates:
        if id(u) not in paired_updates:
            ctx.violation("GUARD", fid, "tracker update without signature write", hirq.loc(u),
                          "`%s` lowers a register but no signature write is paired with it in the same guarded block" % hirq.show(u)[:70])
    return len(writes)


def _cond_class(fn, it):
    """classify one condition fact"""
    if it[0] == "cmp":
        _, a, op, b = it
        if op in ("<", "<=") and is_max_bound(fn, b, [TRACKER]):
            return "MAX(continue)"
        if op in ("<=", "<") and is_max_bound(fn, a, [TRACKER]):
            # qmax <= h  i.e. h >= qmax
            return "MAX(exit)"
        if op == "<" and re.match(r"^self\.%s\.get_value\(.*\)$" % TRACKER, b):
            return "GUARD"
        if op == "<=" and re.match(r"^self\.%s\.get_value\(.*\)$" % TRACKER, a):
            return "GUARD(neg)"
    if it[0] == "truth" and it[1] == "self.to_be_processed.is_empty()":
        return "BUFFER"
    if it[0] == "or":
        return None
    return None


def race_values(fn):
    """names of the locals compared with a register in the guard of a signature write (`h < get_value(k)`): the item's
    current point, the only sound lower bound of what the item can still offer"""
    t = tree_of(fn)
    out = set()
    for (w, _f, idx) in writes_to_self(fn, "signature"):
        for it in nf.control_facts(t, w):
            if it[0] == "cmp" and it[2] == "<" and re.match(r"^self\.%s\.get_value\(.*\)$" % TRACKER, it[3]) and re.match(r"^\w+$", it[1]):
                out.add(it[1])
    return out


def _pruned_on(cond):
    """the value compared with the tracker maximum in an exit condition `max <= v` / `max < v`"""
    return cond[3] if cond and cond[0] == "cmp" else None


def _exit_rule(ctx, facts, fid):
    fn = facts.fn(fid)
    t = tree_of(fn)
    n_inst = 0
    RV = race_values(fn)

    def sound_bound(cond):
        """the pruning comparison is made on the item's current point (a race value), not on something else of the item"""
        v = _pruned_on(cond)
        return v is None or not RV or v in RV
    # a hand-stepped `while j < n { ..; j += 1 }` over the items / the deferral buffer is the `for j in 0..n` it replaces
    # (rulelib.counted_loop): its guard is the exhaustion of the range, and the guard is not a pruning condition of what it encloses
    from ..rulelib import counted_loop
    counted, own_guard = {}, set()
    if not fid.endswith("hash_item"):
        for loop in [n for n in t.nodes if n["k"] == "Loop" and n.get("src") == "While"]:
            cl_ = counted_loop(fn, loop)
            if cl_ is not None and cl_.get("guard") is not None:
                counted[id(loop)] = cl_
                own_guard |= {repr(x) for x in nf.atoms(cl_["guard"], True)}

    def _own(conds_):
        return [c_ for c_ in conds_ if repr(c_) not in own_guard]
    # (a) exits of every user loop
    for loop in [n for n in t.nodes if n["k"] == "Loop"]:
        for (kind, node) in loop_exits(fn, loop):
            if kind == "guard" and id(loop) in counted:
                continue
            if kind == "iterator-exhausted":
                # loops over the input or over the deferral buffer end with their iterator; a race loop must not
                if fid.endswith("hash_item"):
                    n_inst += 1
                    ctx.violation("EXIT", fid, "race bounded by an iterator", hirq.loc(loop), "the race of an item ends when an iterator is exhausted (a fixed number of points), not when its next point cannot beat the largest register")
                continue
            where = hirq.loc(node)
            if kind in ("return", "try"):
                ctx.violation("EXIT", fid, "%s inside a race loop" % kind, where, "a race loop is left by `%s`, which is not a comparison with the tracker maximum" % kind)
                continue
            conds = _own(nf.all_conditions(t, node, stop=loop))
            classes = [_cond_class(fn, c) for c in conds]
            n_inst += 1
            # the innermost condition decides the exit
            inner = classes[0] if classes else None
            if kind == "guard":
                # guard exit holds the negation of the loop condition
                if inner in ("MAX(exit)", "BUFFER"):
                    ctx.ok("EXIT", fid, "loop guard exit on %s" % (conds[0],), where)
                else:
                    ctx.violation("EXIT", fid, "loop guard", where, "the loop condition is not `x < get_max_value()`: at its exit holds %s" % (conds[:1],))
            else:
                if loop["src"] == "ForLoop" or id(loop) in counted:
                    # a `for` of a race function runs over the items (the input, or the deferral buffer): leaving it early drops
                    # the items not yet visited, whatever the reason — the item at hand may be abandoned with `continue` only
                    ctx.violation("EXIT", fid, "break out of the loop over items", where,
                                  "this `break` leaves the loop over the items (taken when %s): the items that follow are never offered their point, "
                                  "so the signature depends on the order in which the container yields them" % (conds[:1],))
                elif inner == "MAX(exit)" and not sound_bound(conds[0]):
                    ctx.violation("EXIT", fid, "race left on a value that is not its current point", where,
                                  "this break compares `%s` with the maximum, which is not the item's current point (%s)" % (_pruned_on(conds[0]), ", ".join(sorted(RV))))
                elif inner == "MAX(exit)":
                    ctx.ok("EXIT", fid, "break on %s" % (conds[0],), where)
                else:
                    ctx.violation("EXIT", fid, "break", where,
                                  "this break leaves the race for a reason other than `value >= get_max_value()`: it is taken when %s" % (conds[:1],))
    # (a') `continue` / early `return`: an item (or one of its points) is skipped
    for node in [n for n in user_nodes(fn) if n["k"] in ("Continue", "Ret") and not hirq.from_expansion(n)]:
        if node["k"] == "Ret" and t.parent.get(id(node)) is fn["hir"]:
            continue
        loops_ = t.enclosing_loops(node)
        tgt = None
        for lp in loops_:
            if node["k"] == "Continue" and node.get("target") == lp["id"]:
                tgt = lp
        conds = _own(nf.all_conditions(t, node, stop=tgt))
        n_inst += 1
        inner = _cond_class(fn, conds[0]) if conds else None
        if inner == "MAX(exit)" and not sound_bound(conds[0]):
            ctx.violation("EXIT", fid, "item pruned on a value that is not its current point", hirq.loc(node),
                          "`%s` abandons the item when %s, but `%s` is not the item's current point (%s): the next point of the item can still lie below the "
                          "maximum, so which items enter the signature depends on when they arrive" % (node["k"].lower(), conds[0], _pruned_on(conds[0]), ", ".join(sorted(RV))))
        elif inner == "MAX(exit)":
            ctx.ok("EXIT", fid, "%s when %s" % (node["k"].lower(), conds[0]), hirq.loc(node))
        else:
            ctx.violation("EXIT", fid, "item skipped", hirq.loc(node),
                          "`%s` skips an item (or the rest of its race) when %s, which is not `value >= get_max_value()`: which items enter the signature then depends on something other than the registers" % (node["k"].lower(), conds[:1]))
    # (b) conditions deciding processing / deferral / keeping / drawing
    targets = []
    for n in user_nodes(fn):
        if n["k"] == "MethodCall" and n["name"] in ("push", "sample"):
            targets.append(n)
        elif n["k"] == "Assign":
            kind, key, proj, idx = slicer.base_place(n["l"])
            if kind == "self" and key == "to_be_processed":
                targets.append(n)
    for n in targets:
        # conditions up to the enclosing per-item loop body
        loops = t.enclosing_loops(n)
        stop = loops[0] if loops else None
        for it in _own(nf.all_conditions(t, n, stop=stop)):
            n_inst += 1
            c = _cond_class(fn, it)
            is_draw = n["k"] == "MethodCall" and n["name"] == "sample"
            if c in ("MAX(continue)", "BUFFER") or (c == "GUARD" and False):
                ctx.ok("EXIT", fid, "%s is conditional on %s [%s]" % (hirq.show(n)[:40], it, c), hirq.loc(n))
            elif c == "GUARD":
                ctx.violation("EXIT", fid, "deferral depends on the register guard", hirq.loc(n),
                              "%s is only executed when this point improved its register (%s): an item whose current point loses its slot would never be offered its later points" % (hirq.show(n)[:50], it))
            elif c in ("MAX(exit)", "GUARD(neg)") or it[0] == "truth" and it[2] is False and it[1] == "self.to_be_processed.is_empty()":
                if c is None:
                    ctx.ok("EXIT", fid, "%s runs while the deferral buffer is not empty" % hirq.show(n)[:40], hirq.loc(n))
                else:
                    ctx.violation("EXIT", fid, "inverted pruning condition", hirq.loc(n),
                                  "%s is executed when %s, i.e. when the value can NOT improve a register" % (hirq.show(n)[:50], it))
            else:
                ctx.violation("EXIT", fid, "unrecognised pruning condition", hirq.loc(n),
                              "%s is conditional on %s, which is neither a comparison with an unmodified get_max_value() nor the register guard" % (hirq.show(n)[:50], it))
    return n_inst


def _deleg(ctx, facts, fid, item):
    fn = facts.fn(fid)
    t = tree_of(fn)
    calls = [n for n in user_nodes(fn) if n["k"] == "MethodCall" and n["name"] == item and nf.nf(n["recv"]) == "self"]
    where = hirq.loc(fn)
    if len(calls) != 1:
        ctx.violation("DELEG", fid, "calls of %s" % item, where, "expected exactly one call of self.%s, found %d" % (item, len(calls)))
        return
    c = calls[0]
    loops = t.enclosing_loops(c)
    if len(loops) != 1:
        ctx.violation("DELEG", fid, "loop nesting", hirq.loc(c), "self.%s is called under %d loops, expected exactly one loop over the input" % (item, len(loops)))
        return
    conds = nf.all_conditions(t, c, stop=while_body(loops[0]))
    if conds:
        ctx.violation("DELEG", fid, "conditional delegation", hirq.loc(c), "self.%s is only called when %s: some elements are skipped" % (item, conds[:2]))
        return
    # other effects on self
    others = [n for (n, _k) in mutating_self_calls(fn) if n is not c]
    ws = writes_to_self(fn)
    if others or ws:
        x = (others + [w[0] for w in ws])[0]
        ctx.violation("DELEG", fid, "extra effect on self", hirq.loc(x), "the entry point also does `%s`" % hirq.show(x)[:70])
        return
    # extra exits
    for (kind, node) in loop_exits(fn, loops[0]):
        if kind not in ("iterator-exhausted", "guard"):
            ctx.violation("DELEG", fid, "early exit", hirq.loc(node), "the per-element loop can be left early by %s" % kind)
            return
    # arguments: key and weight of the same element, unchanged
    sl = slicer_of(fn)
    a0, a1 = c["args"][0], c["args"][1]
    r0 = {slicer.show_root(r) for r in sl.roots(a0)}
    r1 = {slicer.show_root(r) for r in sl.roots(a1)}
    s0 = nf.strip(a0)
    ok0 = s0["k"] == "Path" and "local" in s0["res"]
    s1 = nf.strip(a1)
    ok1 = (s1["k"] == "Path" and "local" in s1["res"])
    if not ok0:
        ctx.violation("DELEG", fid, "key argument", hirq.loc(c), "the key passed to %s is not the element itself: %s" % (item, hirq.show(a0)[:60]))
        return
    if not ok1:
        ctx.violation("DELEG", fid, "weight argument", hirq.loc(c), "the weight passed to %s is not the element's weight unchanged: %s" % (item, hirq.show(a1)[:60]))
        return
    # the weight local must be the map value or data.get_weight(obj) of the same key
    wd = [nf.nf(e) for e in __import__("pmh.rulelib", fromlist=["def_exprs"]).def_exprs(fn, s1["res"]["name"])]
    if wd and not all(re.match(r"^\w+\.get_weight\(%s\)$" % re.escape(nf.nf(a0)), d) for d in wd):
        ctx.violation("DELEG", fid, "weight argument", hirq.loc(c), "the weight is computed as %s" % wd)
        return
    import fnmatch as _fn
    if not wd and not (all(_fn.fnmatchcase(x, "param #1:*.1") for x in r1) and all(_fn.fnmatchcase(x, "param #1:*.0") for x in r0) and r0 and r1):
        ctx.violation("DELEG", fid, "arguments", hirq.loc(c), "key roots %s / weight roots %s are not the map's key and value" % (sorted(r0), sorted(r1)))
        return
    ctx.ok("DELEG", fid, "one unconditional self.%s(%s, %s) per element, no other effect" % (item, nf.nf(a0), nf.nf(a1)), hirq.loc(c))


def _seed_region_removed(fn):
    """normal form of the function body with the statements that only serve the seed computation removed"""
    t = tree_of(fn)
    fl = for_loops(fn)
    if not fl:
        return None, "no for loop"
    first = fl[0]
    body = first["body"]
    stmts = [s for s in body["stmts"] if not hirq.in_log_macro(s)]
    # the seeding let
    idx = None
    for i, s in enumerate(stmts):
        if s["k"] == "Let" and "init" in s and any(x["k"] in ("Call", "MethodCall") and short(x.get("callee", "")) in ("seed_from_u64", "from_seed") for x in hirq.walk(s["init"])):
            idx = i
            break
    if idx is None:
        return None, "no seeding let in the first loop"
    # region: backward from the seeding let, statements whose locals feed only the seed
    region_vars = set()
    for x in hirq.walk(stmts[idx]["init"]):
        if x["k"] == "Path" and "local" in x["res"]:
            region_vars.add(x["res"]["local"])
    loop_vars = set(slicer._pat_binds(first["pat"]))
    region_vars -= loop_vars
    region = {idx}
    for i in range(idx - 1, -1, -1):
        st = stmts[i]
        binds = set(slicer._pat_binds(st["pat"])) if st["k"] == "Let" else set()
        inner = set()
        for x in hirq.walk(st):
            for key in ("pat",):
                if key in x and isinstance(x[key], dict):
                    inner |= set(slicer._pat_binds(x[key]))
            if x["k"] == "Match":
                for a in x["arms"]:
                    inner |= set(slicer._pat_binds(a["pat"]))
        uses = {x["res"]["local"] for x in hirq.walk(st) if x["k"] == "Path" and "local" in x["res"] and x["res"]["name"] != "self"}
        uses -= inner - binds
        join = False
        if st["k"] == "Let":
            join = bool(binds & region_vars)
        elif st["k"] == "MethodCall":
            kind, key, _proj, _idx = slicer.base_place(st["recv"])
            join = kind == "local" and key in region_vars
        else:
            join = bool(uses) and uses <= (region_vars | loop_vars) and bool(uses & region_vars)
        if join:
            region.add(i)
            region_vars |= (uses - loop_vars - binds)
    # region variables must not be used after the seeding let (other than rng itself)
    kept = [s for i, s in enumerate(stmts) if i not in region]
    parts = [nf.nf(s, casts=False) for s in kept]
    # rest of the function (statements after the first loop)
    top = fn["hir"]
    rest = []
    seen_loop = False
    for s in top["stmts"] + ([top["expr"]] if "expr" in top else []):
        if hirq.in_log_macro(s):
            continue
        if s is first["match"]:
            seen_loop = True
            rest.append("<first-loop>")
            continue
        rest.append(nf.nf(s))
    return (parts, rest), None


def _drop_lets(s):
    """`let x = e; ` statements of immutable locals are redundant once x has been inlined everywhere"""
    return re.sub(r"let [A-Za-z_][A-Za-z0-9_]* = [^;{}]*; ", "", s)


def _renumber(s):
    """canonical numbering of the alpha-renamed locals by first occurrence in the text"""
    order = {}
    def rep(m):
        order.setdefault(m.group(0), "w%d" % (len(order) + 1))
        return order[m.group(0)]
    return re.sub(r"\bv\d+\b", rep, s)


def _types_erased(s):
    return re.sub(r"key", "key", s)


from ..rulelib import before as _before


def _compact_rule(ctx, facts, fid):
    """COMPACT: the second pass of 3a/3aSha compacts the deferral buffer in place: every kept item is written at
    to_be_processed[pos] with pos += 1 in the same block, pos starts at 0 in every pass, and the buffer is truncated to pos
    after the pass (items must neither be lost nor be processed twice)"""
    fn = facts.fn(fid)
    t = tree_of(fn)
    keeps = [n for n in user_nodes(fn) if n["k"] == "Assign" and slicer.base_place(n["l"])[:2] == ("self", "to_be_processed")]
    truncs = self_method_calls(fn, "to_be_processed", ["truncate"])
    if not keeps and not truncs:
        return
    where = hirq.loc(fn)
    if len(keeps) != 1 or len(truncs) != 1:
        ctx.violation("COMPACT", fid, "buffer compaction", where, "expected one keep-assignment and one truncate of to_be_processed in the second pass; found %d / %d" % (len(keeps), len(truncs)))
        return
    kp, tr = keeps[0], truncs[0]
    l = nf.strip(kp["l"])
    pos = nf.nf(l["idx"], True) if l["k"] == "Index" else None
    from ..rulelib import def_exprs
    blk = t.parent.get(id(kp))
    incs = [n for n in user_nodes(fn) if n["k"] == "AssignOp" and nf.nf(n["l"]) == pos and n["op"] == "+=" and nf.nf(n["r"]) == "1"]
    ok_inc = len(incs) == 1 and t.parent.get(id(incs[0])) is blk and hir_dominates(t, kp, incs[0])
    defs = [nf.nf(d) for d in def_exprs(fn, pos)] if pos and re.match(r"^\w+$", pos) else []
    ok_init = defs[:1] == ["0"] and len(defs) == 2
    # the init is inside the pass loop, the truncate after the inner for loop, both in the pass body
    loops_k = t.enclosing_loops(kp)
    ok_tr = nf.nf(tr["args"][0], True) == pos and len(loops_k) == 2 and t.contains(loops_k[1], tr) and not t.contains(loops_k[0], tr) and \
        _before(fn, kp, tr) and not nf.all_conditions(t, tr, stop=loops_k[1])[1:]
    lets = [n for n in user_nodes(fn) if n["k"] == "Let" and n["pat"]["k"] == "Bind" and n["pat"]["name"] == pos]
    ok_scope = len(lets) == 1 and len(loops_k) == 2 and t.contains(loops_k[1], lets[0]) and not t.contains(loops_k[0], lets[0])
    # the kept tuple is the item's own (key, inverse weight, generator state)
    if ok_inc and ok_init and ok_tr and ok_scope:
        ctx.ok("COMPACT", fid, "to_be_processed[%s] = kept item; %s += 1; truncate(%s) after the pass; %s = 0 per pass" % (pos, pos, pos, pos), hirq.loc(kp))
    else:
        ctx.violation("COMPACT", fid, "buffer compaction", hirq.loc(kp),
                      "in-place compaction of the deferral buffer is broken (position advanced with each kept item: %s; position starts at 0 in each pass: %s; truncate(position) after the pass: %s): deferred items would be lost or processed twice"
                      % (ok_inc, ok_init and ok_scope, ok_tr))


def _affine(e, var, R=None, _d=0):
    """(a, b) with e == a*var + b for integer-affine expressions of the local `var`, else None. R: a Resolver — immutable locals
    whose definition is still valid at the use (`let round_start = (i - 1) as f64` hoisted out of the inner loop) are looked through"""
    e = nf.strip_casts(e)
    k = e["k"]
    if k == "Lit" and e.get("lk") == "int":
        return (0, int(e["v"]))
    if k == "Path" and "local" in e["res"] and e["res"]["name"] == var:
        return (1, 0)
    if k == "Path" and "local" in e["res"] and R is not None and _d < 6:
        d = R.lookup(e["res"]["local"], e)
        return _affine(d, var, R, _d + 1) if d is not None else None
    if k == "Binary" and e["op"] in ("+", "-"):
        l, r = _affine(e["l"], var, R, _d), _affine(e["r"], var, R, _d)
        if l is None or r is None:
            return None
        sg = 1 if e["op"] == "+" else -1
        return (l[0] + sg * r[0], l[1] + sg * r[1])
    return None


def _band_rule(ctx, facts, fid):
    """the k-th unit interval visited by an item is [k*winv, (k+1)*winv): the band counter must give k = 1 on first use
    and advance by one, in ProbMinHash3 (loop counter from 1, band = i) and in 3a/3aSha (pass counter from 2, band = i-1)
    alike; 3a's keep filter must test the lower end of the NEXT band"""
    from ..rulelib import def_exprs, mutable_locals, resolver_of
    fn = facts.fn(fid)
    where = hirq.loc(fn)
    R = resolver_of(fn)
    # discover the race value h (the local compared in the register guard) and the band counter (the mutable local in
    # the affine factor of the assignment h = <affine> * <inverse weight>)
    t0 = tree_of(fn)
    hname = None
    for (w_, _f, _i) in writes_to_self(fn, "signature"):
        for it in nf.all_conditions(t0, w_):
            if it[0] == "cmp" and it[2] == "<" and it[3].startswith("self.%s.get_value(" % TRACKER):
                hname = it[1]
    if hname is None:
        ctx.violation("BAND", fid, "race value", where, "cannot identify the race value compared in the register guard")
        return
    cname, band_node, band = None, None, None
    muts = mutable_locals(fn)
    for d in def_exprs(fn, hname):
        if d["k"] == "AssignOp":
            continue
        e = nf.strip_casts(d)
        if e["k"] == "Binary" and e["op"] == "*":
            for (x, y) in ((e["l"], e["r"]), (e["r"], e["l"])):
                for cand in muts:
                    a_ = _affine(x, cand, R)
                    if a_ is not None and a_[0] != 0 and nf.nf(y, True, res=R) in ("(1.0 / weight)", "winv", "(1.0 / weight_t.to_f64().unwrap())", "(1.0 / weight_a.to_f64().unwrap())") or \
                            (a_ is not None and a_[0] != 0 and not any(p_["k"] == "Path" and p_["res"].get("name") == cand for p_ in hirq.walk(y))):
                        cname, band_node, band, winv_nf = cand, d, a_, nf.nf(y, True)
    if cname is None:
        ctx.violation("BAND", fid, "band expression", where, "expected exactly one assignment %s = <affine in the band counter> * <inverse weight>; found none" % hname)
        return
    idefs = def_exprs(fn, cname)
    inits = [d for d in idefs if d["k"] != "AssignOp"]
    steps = [d for d in idefs if d["k"] == "AssignOp"]
    if len(inits) != 1 or len(steps) != 1 or _affine(inits[0], cname) is None or nf.nf(steps[0]) != "%s += 1" % cname:
        ctx.violation("BAND", fid, "band counter", where, "the band counter `%s` must be initialised once with a literal and advanced by `+= 1`; found %s" % (cname, [nf.nf(d) for d in idefs]))
        return
    c0 = _affine(inits[0], cname)[1]
    (a, b), node = band, band_node
    first = a * c0 + b
    if a == 1 and first == 1:
        ctx.ok("BAND", fid, "band index %s with %s from %d: first band 1, unit step" % ("%s%+d" % (cname, b) if b else cname, cname, c0), hirq.loc(node))
    else:
        ctx.violation("BAND", fid, "band offset", hirq.loc(node),
                      "the lower end of the band is (%d*%s%+d)*winv with %s starting at %d: the first band visited after the initial point is %d, not 1 — ProbMinHash3 and 3a/3aSha would visit different unit intervals" % (a, cname, b, cname, c0, first))
        return
    # keep filters of the two-pass variants: `winv < qmax` after the first point, `winv * i < qmax` in pass i
    t = tree_of(fn)
    keeps = []
    def in_pass_loop(x):
        """inside the loop that runs while the deferral buffer is not empty (the second and later passes)"""
        for lp in t.enclosing_loops(x):
            for (kind_, nd_) in loop_exits(fn, lp):
                if kind_ == "guard" and any(c_ == ("truth", "self.to_be_processed.is_empty()", True) for c_ in nf.all_conditions(t, nd_, stop=lp)):
                    return True
        return False
    second = {}
    for n_ in user_nodes(fn):
        if n_["k"] == "MethodCall" and n_["name"] == "push" and nf.nf(n_["recv"]) == "self.to_be_processed":
            keeps.append((n_, c0 - 1))      # after the first pass the next band is band(c0)
            second[id(n_)] = in_pass_loop(n_)   # survivors pushed back into a buffer taken out with mem::take
        elif n_["k"] == "Assign" and slicer.base_place(n_["l"])[:2] == ("self", "to_be_processed"):
            keeps.append((n_, None))
            second[id(n_)] = True
    for (kn, _x) in keeps:
        conds = nf.all_conditions(t, kn, stop=t.enclosing_loops(kn)[0] if t.enclosing_loops(kn) else None)
        inner = conds[0] if conds else None
        ok = False
        first_pass = not second.get(id(kn), False)
        nxt = 1 if first_pass else 1 + b      # index of the next band, as an offset to the counter (first pass: absolute)
        if inner and inner[0] == "cmp" and inner[2] in ("<", "<="):
            # find the comparison node again to evaluate its left side symbolically
            lhs_aff = None
            for (cnode, pol) in t.conditions(kn):
                if isinstance(pol, bool) and pol:
                    c_ = nf.strip(cnode)
                    if c_["k"] == "Binary" and c_["op"] in ("<", "<="):
                        l_ = nf.strip_casts(c_["l"])
                        if nf.nf(l_, True) == winv_nf:
                            lhs_aff = (0, 1)
                        elif l_["k"] == "Binary" and l_["op"] == "*":
                            for (x, y) in ((l_["l"], l_["r"]), (l_["r"], l_["l"])):
                                if nf.nf(y, True) == winv_nf and _affine(x, cname, R) is not None:
                                    lhs_aff = _affine(x, cname, R)
                        break
            if lhs_aff is not None:
                ca, cb = lhs_aff
                if first_pass:
                    ok = ca == 0 and cb <= nxt          # c*winv with c <= 1: never drops an item whose next band may matter
                else:
                    ok = ca == 1 and cb <= nxt          # (i + off)*winv with off <= offset of the next band
        if ok:
            ctx.ok("BAND", fid, "keep filter tests the lower end of the next band: %s" % (inner,), hirq.loc(kn))
        else:
            ctx.violation("BAND", fid, "keep filter", hirq.loc(kn), "the item is kept for a later pass when %s, which is not `lower end of the next band < max`" % (inner,))


def run(ctx, facts):
    for k, v in RULES.items():
        ctx.rule(k, v)
    ctx.extra["explanation"] = (
        "Structural clauses of C02 decided on the type-checked HIR/MIR of the six race functions and five entry points: "
        "seed provenance, draw-protocol agreement of 3/3a/3aSha, guarded+paired register/signature writes, pruning "
        "conditions, pure delegation of entry points, sibling agreement, per-item permutation reset. Each is a necessary "
        "condition of order/entry-point independence.")
    ctx.not_decided[:] = [
        "that no position shows the placeholder; power-of-two scaling invariance; union composition (value-level)",
        "that the tracker returns the true maximum (C15, n/a) beyond the accessor shapes",
        "that the first band of an item is consumed before pruning in exactly the same situations in 3 and 3a (value-level)"]
    # 1 SEED
    n = check_seeds(ctx, facts, "SEED", SEED_TABLE)
    ctx.floor("C02 SEED sites", n, 6)
    from . import C18
    ctx.rule("SHASEED", C18.RULES["SHASEED"])
    C18.sha_rule(ctx, facts)
    # 2 RNGPROTO
    nev = 0
    for fid in PROTO_FNS:
        fn = facts.fn(fid)
        from ..rulelib import seed_wrapper
        from .. import mirq
        wrappers = {c for c in {t_.get("callee") for (_i, t_) in mirq.calls(fn["mir"])} if c and c in facts.fns and
                    (seed_wrapper(facts, c) or _seeding_helper(facts, c))}
        cnt, rej, evs = proto.check(fn, wrappers)
        nev += cnt
        if cnt < 4:
            ctx.violation("RNGPROTO", fid, "too few generator events", hirq.loc(fn), "only %d calls on the per-item generator were found (seed, exp, slot, ... expected)" % cnt)
        for (q, e, path) in rej:
            ctx.violation("RNGPROTO", fid, "draw order", "%s:%d" % (fn["sp"][0], path[-1][1]),
                          "draw protocol violated: event %s in state %s; path of generator events (event,line): %s" % (e, q, path))
        if not rej and cnt >= 4:
            ctx.ok("RNGPROTO", fid, "events %s accepted on every CFG path" % [(e, l) for (e, l, _r) in evs], hirq.loc(fn))
    ctx.floor("C02 RNGPROTO generator events", nev, 24)
    # 3 GUARD + PAIR + WRITERS
    nw = 0
    for (fid, allowed) in RACE_FNS:
        nw += _guard_pair(ctx, facts, fid, allowed)
    ctx.floor("C02 guarded signature writes", nw, 8)
    race = {f for (f, _a) in RACE_FNS}
    for prefix, ok_names in SIG_STRUCT_WRITERS.items():
        for fid, fn in facts.fns.items():
            if "hir" not in fn or not fid.startswith(prefix) or fid in race:
                continue
            if short(fid) in ok_names:
                continue
            from .. import inline
            if inline.absorbed(facts, fid):
                continue     # a new private helper whose every call was inlined: its writes are judged in its callers
            for (w, _f, _i) in writes_to_self(fn, "signature"):
                ctx.violation("WRITERS", fid, "signature written outside the race", hirq.loc(w), "%s writes self.signature: %s" % (fid, hirq.show(w)[:60]))
            for n_ in self_method_calls(fn, "signature"):
                if n_.get("recv_ty", "").startswith("&mut "):
                    ctx.violation("WRITERS", fid, "signature mutated outside the race", hirq.loc(n_), "%s mutates self.signature: %s" % (fid, hirq.show(n_)[:60]))
    ctx.ok("WRITERS", "ProbMinHash2/3/3a/3aSha", "signature written only in race functions, new, reset", "")
    # 4 EXIT
    ne = 0
    for (fid, _a) in RACE_FNS:
        ne += _exit_rule(ctx, facts, fid)
    ctx.floor("C02 EXIT instances", ne, 20)
    # tracker accessor shapes
    MT = "maxvaluetrack::MaxValueTracker::<V>::"
    from . import C15 as _C15
    _C15.accessor_shapes(ctx, facts)
    for fid in PROTO_FNS:
        _band_rule(ctx, facts, fid)
        _compact_rule(ctx, facts, fid)
    # 5 DELEG, CLONE
    for (fid, item) in DELEG_FNS:
        _deleg(ctx, facts, fid, item)
    clone_diffs = []
    pairs = [(P3A + "hash_weigthed_idxmap", P3A + "hash_weigthed_hashmap"), (SHA + "hash_weigthed_idxmap", SHA + "hash_weigthed_hashmap")]
    from ..rulelib import resolver_of as _ro
    for (a, b) in pairs:
        # immutable one-use temporaries are inlined and logging is dropped, so neither changes the normal form
        na, nb = nf.nf(facts.fn(a)["hir"], res=nf.AlphaResolver(facts.fn(a))), nf.nf(facts.fn(b)["hir"], res=nf.AlphaResolver(facts.fn(b)))
        na, nb = _renumber(_drop_lets(na)), _renumber(_drop_lets(nb))
        if na == nb:
            ctx.ok("CLONE", a, "normal form identical to %s (%d chars)" % (short(b), len(na)), hirq.loc(facts.fn(a)))
        else:
            i = next((i for i in range(min(len(na), len(nb))) if na[i] != nb[i]), min(len(na), len(nb)))
            clone_diffs.append((a, b, "...%s... vs ...%s..." % (na[max(0, i - 40):i + 60], nb[max(0, i - 40):i + 60])))
    ra, ea = _seed_region_removed(facts.fn(P3A + "hash_weigthed_idxmap"))
    rb, eb = _seed_region_removed(facts.fn(SHA + "hash_weigthed_idxmap"))
    if ea or eb:
        # like the comparison itself this is information only (see below)
        ctx.info("3a vs 3aSha comparison skipped, seeding region not delimited: %s %s" % (ea, eb))
    else:
        if ra == rb:
            ctx.ok("CLONE", SHA + "hash_weigthed_idxmap", "equal to ProbMinHash3a::hash_weigthed_idxmap outside the seeding block (%d + %d statements)" % (len(ra[0]), len(ra[1])), hirq.loc(facts.fn(SHA + "hash_weigthed_idxmap")))
        else:
            diff = [(x, y) for (x, y) in zip(ra[0] + ra[1], rb[0] + rb[1]) if x != y]
            d = diff[0] if diff else ("<length %d>" % (len(ra[0]) + len(ra[1])), "<length %d>" % (len(rb[0]) + len(rb[1])))
            # agreement across the two structs is not part of the property (each is checked by the rules above on its own);
            # a one-sided, behaviour-preserving edit would differ here, so this is information only
            ctx.info("3a and 3aSha differ outside the seeding block: ProbMinHash3a has `%s` where ProbMinHash3aSha has `%s`" % (d[0][:90], d[1][:90]))
    # ITEMLOCAL: the value an item offers to a register is a function of that item (key, weight), of its generator and of the
    # sketcher's parameters — not of the other items of the batch (a total weight, a count, the size of the container) nor of the
    # registers
    ctx.rule("ITEMLOCAL", "the race value offered to a register depends only on the item at hand (its key and its weight), on the sketcher's "
                          "parameters (hasher, sampler, m, increments, permutation generator) and on literals: nothing computed from the other "
                          "items of the call (total weight, length of the container) nor from the registers enters it")
    import fnmatch as _fn
    nloc = 0
    for (fid, _allowed) in RACE_FNS:
        fn = facts.fn(fid)
        sl = slicer_of(fn)
        item = ["param #1:*", "param #2:*"] if fid.endswith("hash_item") else ["param #1:*.0", "param #1:*.1"]
        okroots = item + ["self.b_hasher", "self.exp01", "self.m", "self.betas", "self.permut_generator", "self.to_be_processed*", "literal *",
                          "call rand_distr::*", "call rand::*", "const rand_distr::*", "len(self.signature)",
                          "call <sha2::*", "call sha2::*"]      # Sha512_256::new(): a fresh hasher, a constant
        for u in self_method_calls(fn, TRACKER, ["update"]):
            nloc += 1
            roots = sorted({slicer.show_root(r) for r in sl.roots(u["args"][1])})
            bad = [r for r in roots if not any(_fn.fnmatchcase(r, p_) for p_ in okroots)]
            if bad:
                ctx.violation("ITEMLOCAL", fid, "race value depends on %s" % bad[0], hirq.loc(u),
                              "the value offered to the register also depends on %s: something outside the item at hand (the whole container, the registers) "
                              "enters an item's race value, so the signature depends on how the set is cut into calls or on what was hashed before" % ", ".join(bad[:3]))
            else:
                ctx.ok("ITEMLOCAL", fid, "race value <- {%s}" % ", ".join(roots)[:120], hirq.loc(u))
    ctx.floor("C02 ITEMLOCAL race values", nloc, 6)
    # ProbMinHash3 and ProbMinHash3a can only produce the same signature if their samplers have the same rate
    from . import C01 as _C01
    ctx.rule("LAMBDA", _C01.RULES["LAMBDA"])
    _C01.lambda_rule(ctx, facts)
    # 6 RESETBEFORE
    from . import C13
    C13.require_verified_reset(ctx, facts, [C13.FY], "RESETBEFORE")
    # a ProbMinHash2 brought back by reset() must sketch like a new one: registers left from the previous set prune the next
    ctx.rule("REINIT", "ProbMinHash2::reset re-establishes every live mutated field with the constructor's value (RESET analysis of C13): "
                       "the signature of a reused sketcher is a function of the set hashed after the reset alone")
    C13.require_verified_reset(ctx, facts, [C13.P2], "REINIT")
    fn = facts.fn(P2 + "hash_item")
    t = tree_of(fn)
    resets = self_method_calls(fn, "permut_generator", ["reset"])
    nexts = self_method_calls(fn, "permut_generator", ["next"])
    if not nexts:
        ctx.violation("RESETBEFORE", P2 + "hash_item", "no slot draw", hirq.loc(fn), "permut_generator.next is never called")
    for nx in nexts:
        if any(hir_dominates(t, r, nx) for r in resets):
            ctx.ok("RESETBEFORE", P2 + "hash_item", "permut_generator.reset() dominates next()", hirq.loc(nx))
        else:
            ctx.violation("RESETBEFORE", P2 + "hash_item", "next without reset", hirq.loc(nx),
                          "permut_generator.next() is reachable without a preceding permut_generator.reset() in the same item: slot order would leak between items")
    # CLONE: the two entry points of one struct differ textually. Each has just been judged on its own by every rule above; a
    # one-sided behaviour-preserving rewrite (one-shot digest, another way of compacting the buffer) differs here too, so the
    # difference is a violation only together with another finding in one of the two functions, and information otherwise.
    for (a_, b_, diff) in clone_diffs:
        hit = [v for v in ctx.violations if v["fn"] in (a_, b_) and v["rule"] != "CLONE"]
        if hit:
            ctx.violation("CLONE", b_, "idxmap/hashmap disagree", hirq.loc(facts.fn(b_)), "the two entry points differ (and one of them violates %s): %s" % (hit[0]["rule"], diff))
        else:
            ctx.info("the entry points %s and %s differ textually while each satisfies every structural rule on its own: %s" % (short(a_), short(b_), diff[:160]))
