"""C10 — ProbOrdMinHash2 collision probability: structural preconditions only (seeding of the races, pruning, in-order hashing)."""
from .. import hirq, nf, slicer
from ..rulelib import seed_sites, short, user_nodes, def_exprs, tree_of
from . import C11

POM = C11.POM

RULES = dict(C11.RULES)
RULES["SEEDMIX"] = ("a structured seed must be mixed before it becomes generator state: seed_from_u64(x) expands x through a mixing "
                    "generator (MIXED); Xoshiro/Xorshift::from_seed(bytes) is MIXED only if every byte comes from a digest "
                    "(sha2 finalize), and UNMIXED if the bytes are to_ne_bytes() of program values — the first output of "
                    "xoshiro256++ is rotl(s0+s3,23)+s0, so a raw (hash,count,seed,0) state makes the first race value a function of "
                    "the element hash alone")


def byte_sources(fn, local):
    """expressions whose bytes end up in the local array/vec `local` (initialiser, assignments, copy_from_slice)"""
    out = []
    for e in def_exprs(fn, local):
        out.append(e)
    for n in user_nodes(fn):
        if n["k"] == "MethodCall" and n["name"] in ("copy_from_slice", "clone_from_slice", "extend_from_slice"):
            kind, key, proj, idx = slicer.base_place(n["recv"])
            if kind == "local" and nf.nf(n["recv"]).split("[")[0] == local:
                out.append(n["args"][0])
    return out


def from_digest(fn, e, depth=0):
    """the bytes of e come from a sha2 finalize() result (through slicing / as_slice / locals)"""
    e = nf.strip(e)
    while True:
        if e["k"] == "Index":
            e = nf.strip(e["base"])
        elif e["k"] == "MethodCall" and e["name"] in ("as_slice", "as_ref", "to_vec", "into", "as_mut_slice"):
            e = nf.strip(e["recv"])
        else:
            break
    if e["k"] == "MethodCall" and e["name"] in ("finalize", "finalize_fixed", "finalize_reset"):
        return True
    if e["k"] in ("Repeat", "Lit"):
        return None     # zero-initialisation: neutral
    if e["k"] == "Array" and all(x["k"] == "Lit" for x in e["es"]):
        return None
    if e["k"] == "Path" and "local" in e["res"] and depth < 5:
        srcs = byte_sources(fn, e["res"]["name"])
        if not srcs:
            return False
        res = [from_digest(fn, s, depth + 1) for s in srcs]
        if any(r is False for r in res):
            return False
        return True if any(r is True for r in res) else None
    return False


def seedmix(ctx, facts, fids):
    n = 0
    for fid in fids:
        fn = facts.fn(fid)
        for s in seed_sites(fn):
            cs = short(s.get("callee") or (hirq.show(s["f"]) if s["k"] == "Call" else s["name"]))
            ty = s.get("ty", "")
            if not any(g in ty for g in ("Xoshiro", "Xorshift", "XorShift")):
                continue
            n += 1
            if cs in ("seed_from_u64",):
                ctx.ok("SEEDMIX", fid, "%s: MIXED (rand_core expands the u64 through a mixing generator)" % cs, hirq.loc(s))
            elif cs == "from_seed":
                d = from_digest(fn, s["args"][0])
                if d is True:
                    ctx.ok("SEEDMIX", fid, "from_seed on digest bytes: MIXED", hirq.loc(s))
                else:
                    ctx.violation("SEEDMIX", fid, "from_seed on raw words", hirq.loc(s),
                                  "the generator state is assembled from raw program values (`%s`): the first outputs of the generator then depend on part of the seed only, so occurrences of an element share their decisive race value"
                                  % ", ".join(nf.nf(b)[:40] for b in byte_sources(fn, nf.nf(s["args"][0]))[:4]))
            else:
                ctx.violation("SEEDMIX", fid, "unclassified generator construction %s" % cs, hirq.loc(s), "no mixing class is tabled for %s" % cs)
    return n


def run(ctx, facts):
    for k, v in RULES.items():
        ctx.rule(k, v)
    ctx.extra["explanation"] = (
        "C10 is an expectation over hash randomness and is NOT decided. Decided are the structural preconditions anchored in its "
        "mechanisms: every (element, occurrence) race is seeded from all three of element hash, occurrence number and instance "
        "seed through a mixing step; the race loop is left only when no position can accept the value; positions hash their l "
        "selected elements in sequence order. Breaking the first or second was measured to move the collision fraction.")
    ctx.not_decided[:] = ["the expectation itself (collision probability = order-min-hash similarity)", "the law of the race values",
                          "that each position keeps the l smallest values (array invariant of the insertion sort)"]
    s = C11.seed_rule(ctx, facts)
    ctx.floor("C10 seeding sites", s, 1)
    C11.absorb_rule(ctx, facts)
    C11.finish_rule(ctx, facts)
    C11.lenguard_rule(ctx, facts)
    C11.occurrence_rule(ctx, facts)
    m = seedmix(ctx, facts, [POM + "hash_set"])
    ctx.floor("C10 generator constructions in hash_set", m, 1)
    e = C11.exit_rule(ctx, facts)
    ctx.floor("C10 race loop exits", e, 2)
    C11.store_rules(ctx, facts)
    C11.store_track(ctx, facts)
    C11.signature_rules(ctx, facts)
    C11.resetbefore(ctx, facts)
    from . import C01
    ctx.rule("BETAS", C01.RULES["BETAS"])
    C01.betas_rule(ctx, facts)
    from . import C13
    ctx.rule("RESET-prefix", C13.RULES["RESET-prefix"])
    C13.require_reset_prefix(ctx, facts)
