"""C18 — byte identities of hashed objects are faithful and memory safe (UNSAFE inventory, SIG classification)."""
import re

from .. import hirq, nf, slicer
from ..rulelib import tree_of, slicer_of, user_nodes, short, hir_dominates

RULES = {
    "UNSAFE": "inventory of every user-written unsafe block, fn and impl in the library. A Vec::from_raw_parts must take its pointer from "
              "a Vec whose ownership is given up on every path before the call (mem::forget / ManuallyDrop / into_raw_parts) and must "
              "keep element size and alignment; any other unsafe operation is a violation",
    "SIG": "every impl of the byte-identity trait is built only from native-endian byte representations in order: integers from "
           "to_ne_bytes(*self) (to_le/be_bytes, swap_bytes, rev, arithmetic, casts: violation); Vec<u8>/String from clone / as_ref / "
           "as_bytes / to_vec of self; Vec<u16>/Vec<u32> from per-element to_ne_bytes in iteration order. Fixed-width concatenation in "
           "order is injective, so equal values <=> equal bytes",
    "SHASEED": "in the Sha variant the bytes fed to Sha512_256 are exactly key.get_sig() and the digest seeds the generator: every "
               "definition of the buffer given to from_seed is unconditional and taken from the finalize()/digest() result",
}

INT_OK = {"to_ne_bytes", "from", "into", "to_vec", "into_vec", "box_assume_init_into_vec_unsafe", "write_box_via_move", "new_uninit", "new"}
BYTES_OK = {"clone", "to_vec", "as_slice", "to_owned", "as_ref", "as_bytes", "into_bytes", "iter", "copied", "cloned", "collect", "bytes", "into", "from"}
VEC_OK = {"iter", "into_iter", "flat_map", "to_ne_bytes", "collect", "extend_from_slice", "extend", "with_capacity", "len", "push", "map",
          "flatten", "copied", "cloned", "size_of", "new", "into", "from", "next", "for_each"}
FORBIDDEN = {"to_le_bytes", "to_be_bytes", "swap_bytes", "reverse_bits", "rev", "reverse", "rotate_left", "rotate_right", "sort",
             "sort_unstable", "dedup", "to_lowercase", "to_uppercase", "trim", "wrapping_add", "wrapping_mul", "skip", "take", "step_by",
             "truncate", "pop", "remove", "from_raw_parts", "from_raw_parts_in", "transmute", "as_mut_ptr", "as_ptr", "set_len"}


def call_names(fn):
    out = []
    for x in hirq.walk(fn["hir"]):
        if x["k"] == "MethodCall":
            out.append((x["name"], x))
        elif x["k"] == "Call":
            out.append((short(x.get("callee") or hirq.show(x["f"])), x))
    return out


def sig_rule(ctx, facts):
    impls = [i for i in facts.impls if i.get("trait_def") == "probminhasher::sig::Sig"]
    n = 0
    for i in impls:
        n += 1
        ty = i["self_ty"]
        fid = i["items"][0] if i["items"] else i["path"]
        fn = facts.fn(fid)
        where = hirq.loc(fn)
        names = call_names(fn)
        nm = {a for (a, _x) in names}
        bad = nm & FORBIDDEN
        ops = [x for x in hirq.walk(fn["hir"]) if x["k"] in ("Binary", "AssignOp") and not hirq.from_expansion(x)]
        casts = [x for x in hirq.walk(fn["hir"]) if x["k"] == "Cast" and not hirq.from_expansion(x)]
        unsafe_blocks = [x for x in hirq.walk(fn["hir"]) if x["k"] == "Block" and x.get("unsafe")]
        if re.match(r"^[ui](8|16|32|64|128|size)$", ty):
            allowed, need = INT_OK, ("to_ne_bytes" in nm) or (ty in ("u8", "i8") and any(x["k"] == "Array" for x in hirq.walk(fn["hir"])))
            cls = "integer"
        elif ty in ("std::vec::Vec<u8>", "std::string::String", "&str", "&[u8]"):
            allowed, need = BYTES_OK, True
            cls = "byte container"
        elif re.match(r"^std::vec::Vec<[ui](16|32|64|128)>$", ty):
            allowed, need = VEC_OK, "to_ne_bytes" in nm
            cls = "vector of integers"
        else:
            ctx.violation("SIG", fid, "cannot-establish: unclassified type %s" % ty, where, "no byte-identity class is tabled for `%s`" % ty)
            continue
        unknown = sorted(nm - allowed - FORBIDDEN)
        sl = slicer_of(fn)
        body = fn["hir"]
        roots = {slicer.show_root(r) for r in sl.roots(body["expr"])} if "expr" in body else set()
        roots = {r for r in roots if not r.startswith(("literal", "call ", "len("))}
        if bad:
            ctx.violation("SIG", fid, "non-native byte order or reordering: %s" % sorted(bad), where,
                          "the byte identity of %s uses %s: the bytes are not the native-endian representation in element order" % (ty, sorted(bad)))
        elif ops or casts:
            x = (ops + casts)[0]
            ctx.violation("SIG", fid, "arithmetic or cast in byte identity", hirq.loc(x), "`%s` alters the value before its bytes are taken: different values could give equal bytes" % hirq.show(x)[:60])
        elif unsafe_blocks:
            ctx.violation("SIG", fid, "unsafe in byte identity", hirq.loc(unsafe_blocks[0]), "the byte identity is produced by an unsafe block (see UNSAFE)")
        elif unknown:
            ctx.violation("SIG", fid, "cannot-establish: unrecognised call %s" % unknown, where, "the %s impl uses %s, outside the idioms known to preserve the byte representation" % (cls, unknown))
        elif not need:
            ctx.violation("SIG", fid, "no to_ne_bytes", where, "the %s impl never takes to_ne_bytes of the value" % cls)
        elif roots - {"self.*"}:
            ctx.violation("SIG", fid, "bytes depend on %s" % sorted(roots - {"self.*"}), where, "the returned bytes depend on something other than self")
        else:
            ctx.ok("SIG", fid, "%s: built from {%s} of self only" % (cls, ", ".join(sorted(nm & (allowed - {"new", "from", "into"})) or ["[*self]"])), where)
    ctx.floor("C18 impls of Sig", n, 10)


def unsafe_rule(ctx, facts):
    sites = [u for u in facts.unsafe_sites if not u["sp"][3]]
    derived = [u for u in facts.unsafe_sites if u["sp"][3]]
    ctx.ok("UNSAFE", "<crate>", "%d user-written unsafe site(s); %d compiler/derive-generated (ignored: %s)" % (len(sites), len(derived), sorted({u["sp"][5] for u in derived})), "")
    for u in sites:
        where = "%s:%d" % (u["sp"][0], u["sp"][1])
        if u["kind"] != "block":
            ctx.violation("UNSAFE", u["fn"], "unsafe %s" % u["kind"], where, "user-written unsafe %s: not in the tabled list of accepted unsafe constructs" % u["kind"])
            continue
        fn = facts.fn(u["fn"]) if facts.has(u["fn"]) else None
        if fn is None:
            ctx.violation("UNSAFE", u["fn"], "unsafe block", where, "unsafe block in an unanalysed body")
            continue
        t = tree_of(fn)
        blk = [x for x in t.nodes if x["k"] == "Block" and x.get("unsafe") and x["sp"][1] == u["sp"][1]]
        calls = [x for b in blk for x in hirq.walk(b) if x["k"] in ("Call", "MethodCall")]
        frp = [x for x in calls if short(x.get("callee", "") or x.get("name", "")) in ("from_raw_parts", "from_raw_parts_in")]
        others = [x for x in calls if x not in frp]
        if not frp or others:
            ctx.violation("UNSAFE", u["fn"], "unsafe operation", where, "unsafe block performs `%s`, which is not in the tabled list" % (hirq.show((others or calls or blk)[0])[:60]))
            continue
        for c in frp:
            # ownership transfer: a mem::forget / ManuallyDrop::new / into_raw_parts on a Vec local dominating the call
            gives_up = [x for x in user_nodes(fn) if x["k"] in ("Call", "MethodCall") and short(x.get("callee", "") or x.get("name", "")) in ("forget", "into_raw_parts", "leak", "into_raw")
                        or (x["k"] == "Call" and "ManuallyDrop" in (x.get("callee") or "") and short(x.get("callee", "")) == "new")]
            gives_up = [g for g in gives_up if hir_dominates(t, g, c) or t.contains(g, c)]
            elem = c.get("ty", "")
            src_ptr = nf.nf(c["args"][0])
            layout_ok = not re.search(r" as \*mut u8| as \*const u8", src_ptr) or re.search(r"Vec<(u8|i8)>", " ".join(x.get("recv_ty", "") for x in user_nodes(fn) if x["k"] == "MethodCall" and x["name"] in ("as_mut_ptr", "as_ptr")))
            if not gives_up:
                ctx.violation("UNSAFE", u["fn"], "from_raw_parts-without-ownership-transfer", hirq.loc(c),
                              "Vec::from_raw_parts takes over a buffer whose owner is still dropped (no mem::forget / ManuallyDrop / into_raw_parts on every path before the call): the buffer is freed twice")
            elif not layout_ok:
                ctx.violation("UNSAFE", u["fn"], "from_raw_parts-layout-mismatch", hirq.loc(c),
                              "the buffer is reinterpreted with a different element size/alignment (`%s` -> %s): deallocation uses the wrong layout" % (src_ptr[:50], elem[:40]))
            else:
                ctx.ok("UNSAFE", u["fn"], "from_raw_parts with ownership given up by %s and same layout" % hirq.show(gives_up[0])[:40], hirq.loc(c))


def _digest_to_seed(ctx, rule, fid, fn, t, R_):
    """the 32 bytes given to from_seed are the digest on every path: every definition of the seed buffer (its initialiser unless
    a constant array, copy_from_slice / clone_from_slice into it, assignments to it) takes its value from the finalize()/digest()
    result and is under no condition — a shortcut that copies the raw identity for some keys seeds the generator with unmixed bytes"""
    sites = [x for x in user_nodes(fn) if x["k"] == "Call" and short(x.get("callee", "") or "") == "from_seed" and x["args"]]
    if len(sites) != 1:
        ctx.violation(rule, fid, "seeding call", hirq.loc(fn), "expected one from_seed call per item, found %d" % len(sites))
        return
    site = sites[0]
    arg = nf.strip_casts(site["args"][0])
    loops = [f for f in __import__("pmh.rulelib", fromlist=["for_loops"]).for_loops(fn) if t.contains(f["body"], site)]
    stop = loops[-1]["loop"] if loops else None

    def from_digest(e):
        s_ = nf.nf(e, True, res=R_)
        return ".finalize" in s_ or "::digest(" in s_ or ".finalize_reset" in s_
    defs = []      # (node, source expr)
    if arg["k"] == "Path" and "local" in arg["res"]:
        lid = arg["res"]["local"]
        for x in user_nodes(fn):
            if x["k"] == "Let" and x["pat"].get("k") == "Bind" and x["pat"]["id"] == lid and "init" in x:
                i_ = nf.strip_casts(x["init"])
                if i_["k"] in ("Repeat", "Array") or (i_["k"] == "Call" and short(i_.get("callee", "")) in ("default", "zeroed")):
                    continue      # a constant buffer to be filled
                defs.append((x, x["init"]))
            elif x["k"] == "MethodCall" and x["args"] and nf._place(x["recv"]) == ("local", lid) \
                    and x["name"] in ("copy_from_slice", "clone_from_slice", "fill", "swap_with_slice", "copy_within", "fill_with"):
                defs.append((x, x["args"][0]))
            elif x["k"] in ("Assign", "AssignOp") and nf._place(x["l"]) == ("local", lid):
                defs.append((x, x["r"]))
    else:
        defs.append((site, arg))
    if not defs:
        ctx.violation(rule, fid, "seed bytes", hirq.loc(site), "no definition of the seed buffer `%s` found" % nf.nf(arg)[:40])
        return
    bad = []
    for (d, src) in defs:
        conds = [c for c in nf.all_conditions(t, d, stop=stop)]
        if not from_digest(src):
            bad.append("`%s` does not come from the digest" % nf.nf(d, True)[:70])
        elif conds:
            bad.append("`%s` is conditional on %s" % (nf.nf(d, True)[:50], conds[:1]))
    if bad:
        ctx.violation(rule, fid, "seed bypasses the digest", hirq.loc(defs[0][0]),
                      "the bytes given to from_seed are not the Sha512_256 digest on every path: %s — keys taking the other path seed the generator with their raw bytes" % "; ".join(bad)[:300])
    else:
        ctx.ok(rule, fid, "from_seed(%s): %d definition(s), all unconditional and taken from the digest" % (nf.nf(arg)[:20], len(defs)), hirq.loc(site))


def sha_rule(ctx, facts, rule="SHASEED"):
    """the digest that seeds an item's generator is computed from that item's byte identity alone: one update fed with
    key.get_sig(), on a hasher that is fresh for the item (created in the per-item loop body before the update, or reset by
    finalize_reset with no way to skip from the update to the next item in between)"""
    from ..rulelib import for_loops
    SHA = "probminhasher::probminhash3sha::ProbMinHash3aSha::<D>::"
    for name in ("hash_weigthed_idxmap", "hash_weigthed_hashmap"):
        fid = SHA + name
        fn = facts.fn(fid)
        t = tree_of(fn)
        ups = [x for x in user_nodes(fn) if x["k"] == "MethodCall" and x["name"] in ("update", "chain_update", "update_with") and "sha2" in (x.get("recv_ty", "") + x.get("callee", "") + x.get("resolved", ""))]
        # one-shot form: `Sha512_256::digest(&key.get_sig())` creates, feeds and finalises a hasher of its own
        from ..rulelib import resolver_of
        R_ = resolver_of(fn)
        shots = [x for x in user_nodes(fn) if x["k"] == "Call" and short(x.get("callee", "") or hirq.show(x["f"])) == "digest" and len(x["args"]) == 1
                 and "Digest" in (x.get("callee", "") or hirq.show(x["f"]))]
        if not ups and len(shots) == 1 and nf.nf(shots[0]["args"][0], res=R_) == "key.get_sig()" and [f for f in for_loops(fn) if t.contains(f["body"], shots[0])]:
            ctx.ok(rule, fid, "one-shot Sha512_256::digest(&key.get_sig()) per item: a hasher of its own for every key", hirq.loc(shots[0]))
            _digest_to_seed(ctx, rule, fid, fn, t, R_)
            continue
        if len(ups) != 1 or nf.nf(ups[0]["args"][0], res=R_) not in ("key.get_sig()",):
            ctx.violation(rule, fid, "digest input", hirq.loc(fn), "expected exactly one Sha512_256 update fed with key.get_sig(); found %s" % [nf.nf(u["args"][0])[:40] for u in ups])
            continue
        up = ups[0]
        hname = nf.nf(up["recv"])
        fins = [x for x in user_nodes(fn) if x["k"] == "MethodCall" and x["name"] in ("finalize", "finalize_reset", "finalize_fixed") and nf.nf(x["recv"]) == hname]
        fl = [f for f in for_loops(fn) if t.contains(f["body"], up)]
        news = [x for x in user_nodes(fn) if x["k"] == "Let" and x["pat"]["k"] == "Bind" and x["pat"]["name"] == hname]
        if len(fins) != 1 or not fl or len(news) != 1:
            ctx.violation(rule, fid, "digest lifecycle", hirq.loc(up), "expected one hasher definition, one update and one finalize per item; found %d definition(s), %d finalize call(s)" % (len(news), len(fins)))
            continue
        body = fl[0]["body"]
        fresh = t.contains(body, news[0]) and hir_dominates(t, news[0], up)
        same_blk = t.parent.get(id(up)) is not None
        # statements between update and finalize in the loop body must not leave the iteration
        path_ok = hir_dominates(t, up, fins[0])
        between = []
        if body["k"] == "Block":
            stmts = body["stmts"] + ([body["expr"]] if "expr" in body else [])
            iu = next((i for i, s_ in enumerate(stmts) if t.contains(s_, up)), None)
            ifin = next((i for i, s_ in enumerate(stmts) if t.contains(s_, fins[0])), None)
            if iu is not None and ifin is not None:
                for s_ in stmts[iu:ifin + 1]:
                    for x in hirq.walk(s_):
                        if x["k"] in ("Continue", "Break", "Ret") and not hirq.from_expansion(x) and x["sp"][1] >= up["sp"][1] and x["sp"][1] <= fins[0]["sp"][1]:
                            between.append(x)
        if (fresh or fins[0]["name"] == "finalize_reset") and path_ok and not between:
            _digest_to_seed(ctx, rule, fid, fn, t, R_)
        if fresh and path_ok and not between:
            ctx.ok(rule, fid, "fresh Sha512_256 per item: new -> update(&key.get_sig()) -> finalize in one iteration", hirq.loc(up))
        elif not fresh and fins[0]["name"] == "finalize_reset" and path_ok and not between:
            ctx.ok(rule, fid, "hasher reused with finalize_reset; every update is followed by the reset in the same iteration", hirq.loc(up))
        else:
            ctx.violation(rule, fid, "digest not fresh per item", hirq.loc(up),
                          "the Sha512_256 hasher is %s and %s: bytes of one key can remain in the hasher and be digested together with the next key, so the generator seed is no longer a function of the item alone"
                          % ("created inside the per-item loop" if fresh else "shared across items", "the iteration can be left between update and finalize (%s at %s)" % (between[0]["k"].lower(), hirq.loc(between[0])) if between else "update does not dominate finalize"))


def run(ctx, facts):
    for k, v in RULES.items():
        ctx.rule(k, v)
    ctx.extra["explanation"] = (
        "C18 is structural once unsafe is gone: the unsafe inventory (with the ownership-transfer and layout rule for "
        "Vec::from_raw_parts) and the classification of every impl of the byte-identity trait by the calls it is built from.")
    ctx.not_decided[:] = []
    unsafe_rule(ctx, facts)
    sig_rule(ctx, facts)
    sha_rule(ctx, facts)
