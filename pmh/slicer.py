"""Backward data-dependence slices on HIR (flow-insensitive, field-sensitive on self.<field> and on
tuple components of destructured values).

Atoms:
  variables   ('l', id) / ('l', id, i..)          local binding (optionally tuple component)
              ('s', field) / ('s', field, i..)      self.<field> as assigned inside this function
  roots       ('param', name, i..)                  parameter (component path of iterator items)
              ('self', field, i..)                  value of self.<field> on entry
              ('self', '*')                         self as a whole
              ('len', <atom>)                       length of a container (not its contents)
              ('lit', v) ('def', path) ('src', callee)   literals, constants/statics, argument-less calls
              ('index', 'enumerate')                position index produced by Iterator::enumerate
"""
from collections import defaultdict

from . import hirq

TRANSPARENT_METHODS = {"iter", "iter_mut", "into_iter", "by_ref", "as_ref", "as_mut", "as_slice", "borrow", "clone",
                       "cloned", "copied", "to_owned", "unwrap", "expect", "deref", "into_par_iter", "par_iter"}
LEN_METHODS = {"len", "capacity", "is_empty"}


def base_place(n):
    """strip derefs/refs/index/field down to the root of a place expression.
    returns (kind, key, projpath, index_exprs) with kind in 'local','self', None"""
    idx = []
    proj = []
    cur = n
    while True:
        k = cur["k"]
        if k in ("AddrOf",):
            cur = cur["e"]
        elif k == "Unary" and cur["op"] == "*":
            cur = cur["e"]
        elif k == "Index":
            idx.append(cur["idx"])
            cur = cur["base"]
        elif k == "MethodCall" and cur["name"] in ("as_mut", "as_ref", "borrow_mut", "as_mut_slice", "deref_mut") and not cur["args"]:
            cur = cur["recv"]
        elif k == "Field":
            b = cur["base"]
            bb = b
            while bb["k"] in ("AddrOf",) or (bb["k"] == "Unary" and bb["op"] == "*"):
                bb = bb["e"]
            if bb["k"] == "Path" and "local" in bb["res"] and bb["res"]["name"] == "self":
                return ("self", cur["name"], tuple(reversed(proj)), idx)
            if cur["name"].isdigit():
                proj.append(int(cur["name"]))
            # named field of a non-self struct: treat the struct as a whole
            cur = b
        elif k == "Path":
            if "local" in cur["res"]:
                if cur["res"]["name"] == "self":
                    return ("selfall", None, (), idx)
                return ("local", cur["res"]["local"], tuple(reversed(proj)), idx)
            return (None, None, (), idx)
        elif k == "Block" and not cur["stmts"] and "expr" in cur:
            cur = cur["expr"]
        elif k == "Cast":
            cur = cur["e"]
        else:
            return (None, None, (), idx)


def project(atom, i):
    # projections are bounded: cyclic definitions (a tuple stored back into the container it was read from) must not grow
    # atoms without limit
    if len(atom) >= 5:
        return atom
    if atom[0] in ("l", "s", "param", "self", "enum") and atom != ("self", "*"):
        return atom + (i,)
    return atom


class Slicer:
    def __init__(self, fn, control=False):
        """control=True adds implicit flows: a value assigned under a condition depends on that condition (used for
        seeds: how often a pass counter is incremented is decided by the tests guarding the increment). Off for the
        provenance of guarded register writes, whose guards compare with the registers by design"""
        self.fn = fn
        self.control = control
        self.defs = defaultdict(list)       # variable atom -> [set(atoms)]
        self.param_root = {}                # local id -> root atom
        self.names = {}
        for pi, p in enumerate(fn.get("params", [])):
            self._pidx = pi
            self._bind_params(p["pat"])
        self._tree = hirq.Tree(fn["hir"])
        self._walk(fn["hir"])
        self._cache = {}

    # ---------------------------------------------------------------- construction
    def _bind_params(self, pat, path=()):
        k = pat["k"]
        if k == "Bind":
            self.names[pat["id"]] = pat["name"]
            if pat["name"] == "self":
                return
            # parameters are identified by position (robust against renaming); the name is kept for messages
            self.param_root[pat["id"]] = ("param", "#%d:%s" % (getattr(self, "_pidx", 0), pat["name"]))
            if "sub" in pat:
                self._bind_params(pat["sub"], path)
        elif k in ("Tuple", "TupleStruct", "Or"):
            for q in pat["subs"]:
                self._bind_params(q, path)
        elif k in ("Ref", "Deref"):
            self._bind_params(pat["sub"], path)

    def _bind(self, pat, deps, tuple_aware=True):
        """bind the variables of pattern `pat` to a value with dependency set `deps`"""
        k = pat["k"]
        if k == "Bind":
            self.names[pat["id"]] = pat["name"]
            self.defs[("l", pat["id"])].append(set(deps))
            if "sub" in pat:
                self._bind(pat["sub"], deps)
        elif k == "Tuple":
            for i, q in enumerate(pat["subs"]):
                self._bind(q, {project(a, i) for a in deps})
        elif k in ("TupleStruct", "Or"):
            for q in pat["subs"]:
                self._bind(q, deps)
        elif k == "Struct":
            for f in pat["fields"]:
                self._bind(f["pat"], deps)
        elif k in ("Ref", "Deref"):
            self._bind(pat["sub"], deps)

    def _assign(self, place, deps):
        kind, key, proj, idx = base_place(place)
        if kind == "local":
            self.defs[("l", key) + proj].append(set(deps))
        elif kind == "self":
            self.defs[("s", key) + proj].append(set(deps))
        elif kind == "selfall":
            self.defs[("s", "*")].append(set(deps))

    def _assign_value(self, place, value):
        """assignment with component-wise treatment of tuple literals"""
        v = value
        while v["k"] == "Block" and not v["stmts"] and "expr" in v:
            v = v["expr"]
        if v["k"] == "Tup":
            kind, key, proj, idx = base_place(place)
            for i, e in enumerate(v["es"]):
                d = self.deps(e)
                if kind == "local":
                    self.defs[("l", key) + proj + (i,)].append(d)
                elif kind == "self":
                    self.defs[("s", key) + proj + (i,)].append(d)
        else:
            self._assign(place, self.deps(value))

    def _walk(self, n):
        for x in hirq.walk(n):
            k = x["k"]
            if k == "Let" and "init" in x:
                init = x["init"]
                self._bind(x["pat"], self.deps(init))
            elif k == "LetExpr":
                self._bind(x["pat"], self.deps(x["init"]))
            elif k == "Assign":
                self._assign_value(x["l"], x["r"])
                cd = self._control_deps(x)
                if cd:
                    self._assign(x["l"], cd | self.deps(x["l"]))
            elif k == "AssignOp":
                self._assign(x["l"], self.deps(x["r"]) | self.deps(x["l"]) | self._control_deps(x))
            elif k == "Match":
                d = self.deps(x["e"])
                fl = x.get("src") == "ForLoopDesugar"
                # for-desugaring: `match into_iter(E) { mut iter => loop { match next(&mut iter) { Some(pat) => .. } } }`
                # the iterator variable carries E's deps and the item pattern is bound to them
                for arm in x["arms"]:
                    self._bind(arm["pat"], d)
            elif k == "MethodCall":
                self._method_effects(x)
            elif k == "Call":
                self._call_effects(x)

    def _control_deps(self, node):
        """implicit flow: a value assigned under a condition depends on that condition (how often `n += 1` runs is
        decided by the tests that guard it). Conditions of enclosing ifs / matches / while guards, up to the function"""
        d = set()
        if not self.control:
            return d
        child = node
        for a in self._tree.ancestors(node):
            if a["k"] == "If" and child is not a["c"]:
                if not hirq.in_log_macro(a):
                    d |= self.deps(a["c"])
            elif a["k"] == "Match" and a.get("src") == "Normal" and child is not a["e"]:
                d |= self.deps(a["e"])
            elif a["k"] == "Closure":
                break
            child = a
        # the condition is read as "depends on the state of these fields", without chasing how the fields were written
        # inside this function (a pass counter guarded by `nb_empty > 0` depends on nb_empty, not on everything that
        # ever decremented it)
        return {(("self",) + x[1:]) if x[0] == "s" else x for x in d}

    def _iter_items(self, next_match):
        # the scrutinee is Iterator::next(&mut iter); iter's deps come from into_iter(expr)
        arg = next_match["e"]["args"][0]
        return self._items_of_deps(arg)

    def _items_of_deps(self, e):
        return self.deps(e)

    def _method_effects(self, x):
        name = x["name"]
        recv = x["recv"]
        args = x["args"]
        rty = x.get("recv_ty", "")
        closures = [a for a in args if a["k"] == "Closure"]
        plain = [a for a in args if a["k"] != "Closure"]
        # closure parameters receive the items of the receiver (and accumulators the other args)
        if closures:
            d = self.deps(recv)
            for a in plain:
                d |= self.deps(a)
            for c in closures:
                bd = self.deps(c["body"])
                for p in c["params"]:
                    self._bind(p, d | (bd if name in ("fold", "reduce", "scan", "try_fold") else set()))
        # mutation through a &mut receiver
        if rty.startswith("&mut "):
            d = set()
            for a in plain:
                d |= self.deps(a)
            for c in closures:
                d |= self.deps(c["body"])
            if name == "push" and len(args) == 1:
                self._assign_value(recv, args[0])
            elif name in ("copy_from_slice", "clone_from_slice", "extend_from_slice", "extend", "append", "clone_from"):
                self._assign(recv, d)
            elif name in ("fill",):
                self._assign(recv, d)
            elif name in ("clear", "truncate", "sort", "sort_unstable", "reverse", "swap", "reset", "next", "sample", "next_u64", "next_u32", "fill_bytes"):
                if d:
                    self._assign(recv, d | self.deps(recv))
            else:
                self._assign(recv, d | self.deps(recv))
        # &mut arguments are written by the callee
        for a in plain:
            if a["k"] == "AddrOf" and a["mut"]:
                d = self.deps(recv)
                for b in plain:
                    if b is not a:
                        d |= self.deps(b)
                self._assign(a["e"], d | self.deps(a["e"]))

    def _call_effects(self, x):
        args = x["args"]
        for a in args:
            if a["k"] == "AddrOf" and a["mut"]:
                d = set()
                for b in args:
                    if b is not a:
                        d |= self.deps(b)
                self._assign(a["e"], d | self.deps(a["e"]))

    # ---------------------------------------------------------------- expression dependencies
    def deps(self, n):
        k = n["k"]
        if k == "Lit":
            return {("lit", n["v"])}
        if k == "Path":
            res = n["res"]
            if "local" in res:
                if res["name"] == "self":
                    return {("self", "*")}
                return {("l", res["local"])}
            if "path" in res:
                if res.get("def") in ("Const", "Static", "AssocConst", "ConstParam"):
                    return {("def", res["path"])}
                if res.get("def", "").startswith("Ctor"):
                    return {("def", res["path"])}
                return set()
            return set()
        if k in ("Field", "Index"):
            kind, key, proj, idx = base_place(n)
            if kind == "self":
                return {("s", key) + proj}
            if kind == "local":
                return {("l", key) + proj}
            if kind == "selfall":
                return {("self", "*")}
            # base is an rvalue (call result etc.)
            b = n["base"]
            return self.deps(b)
        if k in ("Unary", "Cast", "AddrOf", "Repeat"):
            return self.deps(n["e"])
        if k == "Binary":
            return self.deps(n["l"]) | self.deps(n["r"])
        if k in ("Assign", "AssignOp"):
            return set()
        if k == "Tup" or k == "Array":
            d = set()
            for e in n["es"]:
                d |= self.deps(e)
            return d
        if k == "Struct":
            d = set()
            for f in n["fields"]:
                d |= self.deps(f["e"])
            if "base" in n:
                d |= self.deps(n["base"])
            if not d:
                d = {("def", hirq.respath(n["res"]))}
            return d
        if k == "Call":
            d = set()
            for a in n["args"]:
                d |= self.deps(a)
            callee = n.get("resolved") or n.get("callee") or hirq.show(n["f"])
            if n["f"]["k"] != "Path" or "local" in n["f"].get("res", {}):
                d |= self.deps(n["f"])
            if not self._has_data(d):
                ctor = n["f"]["k"] == "Path" and n["f"]["res"].get("def", "").startswith("Ctor")
                d = d | ({("def", callee)} if ctor else {("src", callee)})
            return d
        if k == "MethodCall":
            name = n["name"]
            recv = n["recv"]
            if name in LEN_METHODS and not n["args"]:
                return {("len", a) for a in self.deps(recv)} or {("lit", "len")}
            d = self.deps(recv)
            if name == "enumerate":
                # items are (index, item): component 0 is a position index
                return {("enum", a) for a in d}
            for a in n["args"]:
                d |= self.deps(a)
            if not self._has_data(d):
                d = d | {("src", n.get("resolved") or n.get("callee") or name)}
            return d
        if k == "If":
            d = self.deps(n["c"]) | self.deps(n["t"])
            if "e" in n:
                d |= self.deps(n["e"])
            return d
        if k == "LetExpr":
            return self.deps(n["init"])
        if k == "Match":
            d = self.deps(n["e"])
            for a in n["arms"]:
                d |= self.deps(a["body"])
            return d
        if k == "Block":
            if "expr" in n:
                return self.deps(n["expr"])
            return set()
        if k == "Closure":
            # captured values the closure computes with
            inner = self.deps(n["body"])
            bound = set()
            for p in n["params"]:
                for b in _pat_binds(p):
                    bound.add(("l", b))
            return {a for a in inner if a[:2] not in bound}
        if k in ("Loop", "Break", "Continue", "Ret", "Let", "Item"):
            return set()
        return set()

    @staticmethod
    def _has_data(d):
        return any(a[0] not in ("lit",) for a in d)

    # ---------------------------------------------------------------- closure to roots
    def expand(self, atoms, _guard=None):
        """transitive closure of atoms down to roots; returns set of root atoms"""
        guard = _guard if _guard is not None else set()
        roots = set()
        seen = set()
        stack = list(atoms)
        while stack:
            a = stack.pop()
            if a in seen:
                continue
            seen.add(a)
            t = a[0]
            if t == "l":
                lid = a[1]
                proj = a[2:]
                if lid in self.param_root:
                    roots.add(self.param_root[lid] + proj)
                found = False
                # exact component definitions, then whole-variable definitions projected
                for j in range(len(proj), -1, -1):
                    key = ("l", lid) + proj[:j]
                    rest = proj[j:]
                    for ds in self.defs.get(key, []):
                        found = True
                        for b in ds:
                            for r in rest:
                                b = project(b, r)
                            stack.append(b)
                # sub-components written separately also flow into the whole
                for key, dss in self.defs.items():
                    if key[0] == "l" and key[1] == lid and len(key) > 2 + len(proj) and key[2:2 + len(proj)] == proj:
                        for ds in dss:
                            stack.extend(ds)
            elif t == "s":
                f = a[1]
                proj = a[2:]
                roots.add(("self", f) + proj)
                for j in range(len(proj), -1, -1):
                    key = ("s", f) + proj[:j]
                    rest = proj[j:]
                    for ds in self.defs.get(key, []):
                        for b in ds:
                            for r in rest:
                                b = project(b, r)
                            stack.append(b)
                for key, dss in self.defs.items():
                    if key[0] == "s" and key[1] == f and len(key) > 2 + len(proj) and key[2:2 + len(proj)] == proj:
                        for ds in dss:
                            stack.extend(ds)
            elif t == "len":
                if a in guard:
                    continue
                guard.add(a)
                if a[1][0] == "s":
                    # the length of a field does not depend on element writes made in this function
                    roots.add(("len", ("self",) + a[1][1:]))
                    continue
                inner = self.expand([a[1]], guard)
                for r in inner:
                    roots.add(("len", r) if r[0] != "len" else r)
            elif t == "enum":
                if a in guard:
                    continue
                guard.add(a)
                inner = self.expand([a[1]], guard)
                for r in inner:
                    roots.add(("enum", r) + a[2:])
            else:
                roots.add(a)
        # resolve projections of enumerate items: ('enum', r, 0) -> index, ('enum', r, 1, rest..) -> r+rest
        out = set()
        for r in roots:
            out.add(self._norm_enum(r))
        return out

    def _norm_enum(self, r):
        return r

    def roots(self, expr):
        return normalise(self.expand(self.deps(expr)))

    def roots_of_atoms(self, atoms):
        return normalise(self.expand(atoms))

    def name_of(self, lid):
        return self.names.get(lid, "_%s" % lid)


def _pat_binds(p):
    k = p["k"]
    if k == "Bind":
        yield p["id"]
        if "sub" in p:
            yield from _pat_binds(p["sub"])
    elif k in ("Tuple", "TupleStruct", "Or"):
        for q in p["subs"]:
            yield from _pat_binds(q)
    elif k == "Struct":
        for f in p["fields"]:
            yield from _pat_binds(f["pat"])
    elif k in ("Ref", "Deref"):
        yield from _pat_binds(p["sub"])


def project_enum(atom, i):
    return atom


def normalise(roots):
    """('enum', r) wrappers with projections: project(('enum', r), 0) was stored as ('enum', r, 0)"""
    out = set()
    for r in roots:
        if r[0] == "enum":
            inner = r[1]
            proj = r[2:]
            if not proj:
                out.add(("index", "enumerate"))
                out.add(inner)
            elif proj[0] == 0:
                out.add(("index", "enumerate"))
            else:
                x = inner
                for p in proj[1:]:
                    x = project(x, p)
                out.add(x)
        else:
            out.add(r)
    return out


def show_root(r):
    t = r[0]
    if t == "param":
        return "param " + r[1] + "".join(".%d" % i for i in r[2:])
    if t == "self":
        return "self." + r[1] + "".join(".%d" % i for i in r[2:])
    if t == "len":
        return "len(" + show_root(r[1]) + ")"
    if t == "lit":
        return "literal " + str(r[1])
    if t == "def":
        return "const " + r[1]
    if t == "src":
        return "call " + r[1]
    if t == "index":
        return "enumerate index"
    return str(r)
