"""exact rational evaluation of small arithmetic HIR expressions (constants of the algorithms), used to compare
sibling definitions of the same table; nothing of the library is executed"""
from fractions import Fraction

from . import nf


class NotConst(Exception):
    pass


def ev(e, env):
    e = nf.strip(e)
    k = e["k"]
    if k == "Lit":
        if e.get("lk") == "int":
            return Fraction(int(e["v"]))
        if e.get("lk") == "float":
            return Fraction(e["v"].rstrip("."))
        raise NotConst(e["v"])
    if k == "Path" and "local" in e["res"]:
        nm = e["res"]["name"]
        if nm in env:
            return Fraction(env[nm])
        raise NotConst(nm)
    if k == "Cast":
        v = ev(e["e"], env)
        if v is not None and e.get("ty") in ("u8", "u16", "u32", "u64", "u128", "usize", "i8", "i16", "i32", "i64", "i128", "isize") and v.denominator != 1:
            return Fraction(int(v))                    # float -> integer cast truncates
        return v
    if k == "Unary" and e["op"] == "-":
        return -ev(e["e"], env)
    if k == "Binary" and e["op"] in ("+", "-", "*", "/"):
        a, b = ev(e["l"], env), ev(e["r"], env)
        if e["op"] == "+":
            return a + b
        if e["op"] == "-":
            return a - b
        if e["op"] == "*":
            return a * b
        if b == 0:
            return None
        if e.get("ty") in ("u8", "u16", "u32", "u64", "u128", "usize", "i8", "i16", "i32", "i64", "i128", "isize"):
            q = abs(a) // abs(b)                      # integer division truncates toward zero
            return Fraction(q if (a >= 0) == (b >= 0) else -q)
        return a / b
    if k == "Block" and not e["stmts"] and "expr" in e:
        return ev(e["expr"], env)
    raise NotConst(k)
