"""Scratch copies of the analysed crate (outside /repo and /verif) for mutation smoke tests."""
import os
import shutil
import subprocess
import tempfile

from .engine import REPO


def make_copy(src_root=None):
    src_root = src_root or REPO
    d = tempfile.mkdtemp(prefix="pmh-scratch-")
    for name in os.listdir(src_root):
        if name in ("target", ".git"):
            continue
        s = os.path.join(src_root, name)
        if os.path.isdir(s):
            shutil.copytree(s, os.path.join(d, name))
        else:
            shutil.copy2(s, os.path.join(d, name))
    return d


def apply_edit(root, relfile, old, new, count=1):
    """exact-context replacement; returns False if the context does not occur exactly `count` times
    (count=None: at least once, replace all)"""
    p = os.path.join(root, relfile)
    if not os.path.exists(p):
        return False
    s = open(p).read()
    c = s.count(old)
    if c == 0 or (count is not None and c != count):
        return False
    open(p, "w").write(s.replace(old, new))
    return True


def apply_patch(root, patchfile):
    r = subprocess.run(["git", "apply", "--unsafe-paths", "--directory", root, patchfile], capture_output=True, text=True, cwd="/")
    if r.returncode != 0:
        r = subprocess.run(["patch", "-p1", "-d", root, "-i", patchfile], capture_output=True, text=True)
    return r.returncode == 0, r.stderr + r.stdout


def remove(d):
    shutil.rmtree(d, ignore_errors=True)
