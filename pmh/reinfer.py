"""candidate re-inference (thorough tier, information only): the rule tables are re-derived from the tree by simple
structural queries and diffed against the frozen tables; an untabled instance is listed as `unregistered`"""
from . import hirq
from .rulelib import seed_sites, user_nodes, short


def run(ctx, facts):
    from .rules import C02, C04, C09, C11, C13
    un = []
    # 1 structs embedding a FYshuffle / MaxValueTracker must be known to the RESET analysis
    tabled = {s["path"]: s for s in C13.ORDER}
    for path, st in facts.structs.items():
        for f in st["fields"]:
            for ty, spath in (("fyshuffle::FYshuffle", "fyshuffle::FYshuffle"), ("maxvaluetrack::MaxValueTracker", "maxvaluetrack::MaxValueTracker")):
                if ty in f["ty"]:
                    spec = tabled.get(path)
                    has_reset = any(k.startswith(path.split("<")[0]) and short(k) in ("reset", "reinit") for k in facts.fns)
                    if spec is None and has_reset:
                        un.append("struct %s has a reset/reinit and embeds %s (field %s) but is not in the RESET table" % (path, ty, f["name"]))
                    elif spec is not None and f["name"] not in spec["nested"]:
                        un.append("RESET table row %s does not list nested field %s: %s" % (spec["name"], f["name"], ty))
    # 2 methods named reset / reinit
    for fid in facts.fns:
        if short(fid) in ("reset", "reinit") and "{closure" not in fid:
            if not any(fid.startswith(s["prefix"]) for s in C13.ORDER):
                un.append("method %s is not covered by a (constructor, reset) pair of the RESET table" % fid)
    # 3 functions that lower a tracker register
    race = {f for (f, _a) in C02.RACE_FNS} | {C11.OMS + "update_with_maxtracker"}
    for fn in facts.lib_fns():
        for n in user_nodes(fn):
            if n["k"] == "MethodCall" and n["name"] == "update" and "MaxValueTracker" in n.get("recv_ty", "") and fn["id"] not in race:
                un.append("function %s calls MaxValueTracker::update but is not a tabled race function" % fn["id"])
                break
    # 4 seeding sites
    tabled_seed = set(C02.SEED_TABLE) | set(C04.SEED_TABLE) | set(C11.SEED_TABLE) | {C11.OMS + "create_signature", C09.OD + "get_hsketch_u32", C09.RD + "get_hsketch_u32"}
    for fn in facts.lib_fns():
        if seed_sites(fn) and fn["id"] not in tabled_seed:
            un.append("function %s seeds a generator/hasher but has no row in a SEED table (default policy of C12 applies)" % fn["id"])
    # 5 sketch-like methods
    for fid in facts.fns:
        if short(fid) in ("sketch", "sketch_slice") and not any(fid.startswith(p) for p in (C04.SMH, C04.SMH2, C04.SS, C04.OD, C04.RD)):
            un.append("method %s looks like a sketching entry point of an untabled sketcher" % fid)
    ctx.extra["unregistered"] = un
    return un
