"""mutation smoke (thorough tier): canned single-site edits applied to a scratch copy of the current tree"""


def run(ctx, prop):
    ctx.extra.setdefault("mutants", {"applied": 0, "flagged": 0, "skipped": 0, "note": "not yet populated"})
