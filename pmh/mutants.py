"""mutation smoke (thorough tier): canned single-site edits applied to scratch copies of the current tree, each
re-analysed by the same rules in a sub-context; mutants must be flagged by the named rule, benign edits must stay silent."""
import importlib.util
import os
import concurrent.futures as cf

from . import engine, scratch


def load_table():
    p = os.path.join(engine.VERIF, "mutants", "table.py")
    spec = importlib.util.spec_from_file_location("pmh_mutant_table", p)
    mod = importlib.util.module_from_spec(spec)
    spec.loader.exec_module(mod)
    table = list(mod.M)
    # behaviour-preserving refactorings written independently of the rules (benign/<name>/patch.diff): every check must
    # stay silent on each of them
    bdir = os.path.join(engine.VERIF, "benign")
    for name in sorted(os.listdir(bdir)) if os.path.isdir(bdir) else []:
        pf = os.path.join(bdir, name, "patch.diff")
        if os.path.exists(pf):
            touched = [l[6:].strip() for l in open(pf) if l.startswith("+++ b/")]
            lim = os.path.join(bdir, name, "KNOWN_LIMIT")
            table.append({"prop": "*", "kind": "benign", "name": "refactoring:" + name, "rule": None, "patch": pf,
                          "file": touched[0] if touched else "src/",
                          "known_limit": open(lim).read().strip() if os.path.exists(lim) else None})
    return table


def run_one(args):
    prop, mt, slot, src = args
    import importlib
    mod = importlib.import_module("pmh.rules.%s" % prop)
    d = scratch.make_copy(src)
    try:
        if mt.get("rename"):
            import re
            for root, _dirs, files in os.walk(os.path.join(d, "src")):
                for f in files:
                    p_ = os.path.join(root, f)
                    s_ = open(p_).read()
                    for a, b in mt["rename"].items():
                        s_ = re.sub(r"(?<!\w)(?<![^.]\.)%s(?!\w)" % re.escape(a), b, s_)
                    open(p_, "w").write(s_)
        elif mt.get("patch"):
            ok_, _msg = scratch.apply_patch(d, mt["patch"])
            if not ok_:
                return (mt["name"], "skipped", "patch does not apply (the tree changed)", [])
        elif not scratch.apply_edit(d, mt["file"], mt["old"], mt["new"], mt.get("count", 1)):
            return (mt["name"], "skipped", "context not found (the tree changed)", [])
        try:
            facts = engine.load_facts("default", src_root=d, workname="mut%d" % slot)
        except engine.AnalysisError as e:
            return (mt["name"], "build-failed", str(e)[-300:], [])
        sub = engine.Ctx(prop, "thorough")
        sub.new_config("default")
        try:
            from . import rulelib
            rulelib.run_property(prop, mod, sub, facts)
            sub.check_floors()
        except engine.AnalysisError as e:
            return (mt["name"], "analysis-error", str(e)[:300], [])
        rules = sorted({v["rule"] for v in sub.violations})
        keys = [v["key"] for v in sub.violations]
        return (mt["name"], "ran", rules, keys)
    finally:
        scratch.remove(d)


def run(ctx, prop, src=None):
    table = [mt for mt in load_table() if mt["prop"] in (prop, "*")]
    res = {"applied": 0, "flagged": 0, "skipped": 0, "benign_applied": 0, "benign_silent": 0, "details": []}
    if not table:
        ctx.extra["mutants"] = res
        return
    jobs = [(prop, mt, i % 6, src) for i, mt in enumerate(table)]
    # one worker per slot so that two scratch copies never share a target directory at the same time
    by_slot = {}
    for j in jobs:
        by_slot.setdefault(j[2], []).append(j)
    out = []

    def run_slot(js):
        return [run_one(j) for j in js]

    with cf.ThreadPoolExecutor(max_workers=6) as ex:
        for r in ex.map(run_slot, by_slot.values()):
            out.extend(r)
    byname = {mt["name"]: mt for mt in table}
    for (name, status, rules, keys) in out:
        mt = byname[name]
        d = {"name": name, "kind": mt["kind"], "expected_rule": mt["rule"], "status": status, "rules_fired": rules if status == "ran" else [], "note": rules if status != "ran" else ""}
        res["details"].append(d)
        if status == "skipped":
            res["skipped"] += 1
            continue
        if status != "ran":
            # a mutant that does not compile any more is not evidence either way
            res["skipped"] += 1
            continue
        if mt["kind"] == "mutant":
            res["applied"] += 1
            if mt["rule"] in rules:
                res["flagged"] += 1
                ctx.ok("MUTANT", "mutation smoke", "%s flagged by %s" % (name, mt["rule"]), mt["file"])
            else:
                ctx.instances.append({"rule": "MUTANT", "fn": "mutation smoke", "instance": "%s NOT flagged by %s (fired: %s)" % (name, mt["rule"], rules), "where": mt["file"], "verdict": "checker weakness (information)"})
        else:
            if mt.get("known_limit") and rules:
                # a documented false alarm of a template rule: reported as information, not counted as a self-test failure
                res.setdefault("known_limits", []).append({"name": name, "rules_fired": rules, "why": mt["known_limit"][:300]})
                ctx.instances.append({"rule": "BENIGN", "fn": "mutation smoke", "instance": "%s raised %s (documented limit)" % (name, rules), "where": mt["file"], "verdict": "documented template limit (information)"})
                continue
            res["benign_applied"] += 1
            if not rules:
                res["benign_silent"] += 1
                ctx.ok("BENIGN", "mutation smoke", "%s stays silent" % name, mt["file"] or "src/")
            else:
                ctx.instances.append({"rule": "BENIGN", "fn": "mutation smoke", "instance": "%s raised %s" % (name, rules), "where": mt["file"], "verdict": "checker false alarm on a benign edit (information)"})
    ctx.extra["mutants"] = res
    weak = res["applied"] - res["flagged"]
    noisy = res["benign_applied"] - res["benign_silent"]
    if weak or noisy:
        # a checker self-test failure is an analysis problem, never a VIOLATION of the property
        raise engine.AnalysisError("mutation smoke: %d mutant(s) not flagged, %d benign edit(s) flagged: %s"
                                   % (weak, noisy, [d for d in res["details"] if (d["kind"] == "mutant" and d["status"] == "ran" and d["expected_rule"] not in d["rules_fired"]) or (d["kind"] == "benign" and d["rules_fired"])]))
