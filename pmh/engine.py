"""Check harness: facts acquisition, rule context, known findings, evidence, exit codes.

exit 0 = every rule instance held; 1 = violation (VIOLATION line printed);
2 = analysis could not be performed (ANALYSIS-ERROR printed, never a VIOLATION).
"""
import fcntl
import json
import os
import shutil
import subprocess
import sys
import time

VERIF = os.path.dirname(os.path.dirname(os.path.abspath(__file__)))
WORK = os.path.join(VERIF, ".work")
DRIVER = os.path.join(VERIF, "driver", "target", "release", "pmh-facts")
REPO = os.environ.get("PMH_REPO", "/repo")
MIN_BODIES = 170

CONFIGS = {
    "default": [],
    "nodefault": ["--no-default-features"],
}


class AnalysisError(Exception):
    pass


def nightly_sysroot():
    return subprocess.check_output(["rustc", "+nightly", "--print", "sysroot"], text=True).strip()


def build_driver():
    if os.path.exists(DRIVER):
        # rebuild if sources are newer
        src = os.path.join(VERIF, "driver", "src")
        newest = max(os.path.getmtime(os.path.join(src, f)) for f in os.listdir(src))
        if newest <= os.path.getmtime(DRIVER):
            return
    env = dict(os.environ, CARGO_NET_OFFLINE="true")
    r = subprocess.run(["cargo", "+nightly", "build", "--release", "--offline"],
                       cwd=os.path.join(VERIF, "driver"), env=env, capture_output=True, text=True)
    if r.returncode != 0:
        raise AnalysisError("driver build failed:\n" + r.stderr[-3000:])


def run_driver(src_root, config="default", workname=None, crate="probminhash", extra_args=None, lib=True):
    """run the fact extractor on the crate rooted at src_root; returns the parsed fact file"""
    build_driver()
    workname = workname or config
    wdir = os.path.join(WORK, workname)
    os.makedirs(wdir, exist_ok=True)
    lock = open(os.path.join(wdir, "lock"), "w")
    fcntl.flock(lock, fcntl.LOCK_EX)
    try:
        out = os.path.join(wdir, "facts.%d.json" % os.getpid())
        target = os.path.join(wdir, "target")
        # cargo must not replay a cached result for the analysed crate
        fp = os.path.join(target, "debug", ".fingerprint")
        if os.path.isdir(fp):
            for d in os.listdir(fp):
                if d.startswith(crate + "-") or d.startswith(crate.replace("_", "-") + "-"):
                    shutil.rmtree(os.path.join(fp, d), ignore_errors=True)
        env = dict(os.environ)
        env.update({
            "LD_LIBRARY_PATH": nightly_sysroot() + "/lib" + (":" + env["LD_LIBRARY_PATH"] if env.get("LD_LIBRARY_PATH") else ""),
            "RUSTFLAGS": "-Zmir-opt-level=0 -Awarnings",
            "RUSTC_WORKSPACE_WRAPPER": DRIVER,
            "PMH_FACTS_OUT": out,
            "PMH_CONFIG": config,
            "PMH_TARGET_CRATE": crate,
            "CARGO_TARGET_DIR": target,
            "CARGO_NET_OFFLINE": "true",
            "CARGO_INCREMENTAL": "0",
        })
        cmd = ["cargo", "+nightly", "check", "--offline"] + (["--lib"] if lib else []) + CONFIGS.get(config, []) + (extra_args or [])
        r = subprocess.run(cmd, cwd=src_root, env=env, capture_output=True, text=True)
        if r.returncode != 0:
            raise AnalysisError("cargo check with the fact driver failed in %s (config %s):\n%s" % (src_root, config, r.stderr[-4000:]))
        if not os.path.exists(out):
            raise AnalysisError("driver produced no fact file for %s (config %s); stderr:\n%s" % (src_root, config, r.stderr[-2000:]))
        with open(out) as f:
            facts = json.load(f)
        os.unlink(out)
    finally:
        fcntl.flock(lock, fcntl.LOCK_UN)
        lock.close()
    if facts.get("crate") != crate:
        raise AnalysisError("fact file is for crate %r, expected %r" % (facts.get("crate"), crate))
    if os.path.realpath(facts.get("src_root", "")) != os.path.realpath(src_root):
        raise AnalysisError("fact file src_root %r is not the requested %r" % (facts.get("src_root"), src_root))
    return facts


class Facts:
    def __init__(self, raw):
        self.raw = raw
        self.fns = {f["id"]: f for f in raw["fns"]}
        self.structs = {s["path"]: s for s in raw["structs"]}
        self.impls = raw["impls"]
        self.statics = raw["statics"]
        self.unsafe_sites = raw["unsafe_sites"]
        self.config = raw.get("config", "")
        self.n_bodies = raw["n_bodies"]

    def fn(self, fid):
        f = self.fns.get(fid)
        if f is None:
            raise AnalysisError("anchor function %r not found in the analysed crate (config %s)" % (fid, self.config))
        return f

    def has(self, fid):
        return fid in self.fns

    def lib_fns(self):
        """all function-like bodies with HIR (closures are nested in their parents)"""
        return [f for f in self.raw["fns"] if "hir" in f]

    def struct(self, path):
        s = self.structs.get(path)
        if s is None:
            raise AnalysisError("anchor struct %r not found (config %s)" % (path, self.config))
        return s

    def struct_fields(self, path):
        return [f["name"] for f in self.struct(path)["fields"]]


def load_facts(config="default", src_root=None, min_bodies=MIN_BODIES, workname=None):
    raw = run_driver(src_root or REPO, config, workname=workname)
    if raw["n_bodies"] < min_bodies:
        raise AnalysisError("only %d bodies analysed, fewer than the floor %d" % (raw["n_bodies"], min_bodies))
    facts = Facts(raw)
    from . import inline
    inline.prepare(facts)
    return facts


# ---------------------------------------------------------------------------------------


class Ctx:
    """collects rule instances, violations and evidence for one property run"""

    def __init__(self, prop, tier, level="other"):
        self.prop = prop
        self.tier = tier
        self.level = level
        self.t0 = time.time()
        self.violations = []      # dicts
        self.instances = []       # (rule, site, verdict)
        self.sites = set()
        self.rules = {}           # rule name -> text
        self.floors = []          # (name, count, floor)
        self.functions = set()
        self.notes = []
        self.assumptions = []
        self.extra = {}
        self.configs = []
        self._ord = {}
        self.not_decided = []
        self.obligations = None   # for proof level: list of (name, discharged bool, detail)

    # -- recording
    def rule(self, name, text):
        self.rules[name] = text

    def fn_seen(self, fid):
        self.functions.add(fid)

    def ok(self, rule, fn, detail, where=""):
        """a rule instance that was evaluated and held"""
        self.instances.append({"rule": rule, "fn": fn, "instance": detail, "where": where, "verdict": "holds"})
        self.sites.add((rule, fn, detail))
        self.functions.add(fn)

    def info(self, text):
        self.notes.append(text)

    def violation(self, rule, fn, detail, where, msg, extra=None):
        base = "%s|%s|%s" % (rule, fn, detail)
        k = self._ord.get(base, 0)
        self._ord[base] = k + 1
        key = "%s|%d" % (base, k)
        v = {"key": key, "rule": rule, "fn": fn, "instance": detail, "where": where, "message": msg,
             "config": self.configs[-1] if self.configs else ""}
        if extra:
            v["extra"] = extra
        # the same violation seen in a second configuration is not a new one
        for old in self.violations:
            if old["key"] == key and old["config"] != v["config"]:
                return
        self.violations.append(v)
        self.instances.append({"rule": rule, "fn": fn, "instance": detail, "where": where, "verdict": "VIOLATED: " + msg})
        self.sites.add((rule, fn, detail))
        self.functions.add(fn)

    def floor(self, name, count, floor):
        # recorded now, decided by check_floors() once every rule of the run has had its say: a construct whose removal
        # lowers a count is usually reported as a violation by a later rule, and that report must win
        self.floors.append((name, count, floor))

    def check_floors(self):
        if self.violations:
            return
        for (name, count, floor) in self.floors:
            if count < floor:
                raise AnalysisError("floor not met for %s: found %d instance(s), confirmed by hand: %d — the rule would pass vacuously" % (name, count, floor))

    def new_config(self, name):
        self.configs.append(name)
        self._ord = {}

    # -- finishing
    def finish(self):
        wall = time.time() - self.t0
        kf_path = os.path.join(VERIF, "known_findings.json")
        known = {}
        if os.path.exists(kf_path):
            for e in json.load(open(kf_path)).get("findings", []):
                if e.get("status") == "known" and e.get("property") == self.prop:
                    known[e["key"]] = e
        new, kf = [], []
        for v in self.violations:
            if v["key"] in known:
                kf.append(v)
            else:
                new.append(v)
        evdir = evidence_dir()
        os.makedirs(os.path.join(evdir, "replay"), exist_ok=True)
        for v in kf:
            print("KNOWN-FINDING: property=%s %s [%s at %s]" % (self.prop, known[v["key"]].get("what", v["message"]), v["key"], v["where"]))
        for i, v in enumerate(new):
            rp = os.path.join(evdir, "replay", "%s-%d.json" % (self.prop, i))
            with open(rp, "w") as f:
                json.dump(v, f, indent=1)
            print("%s: rule %s violated in %s: %s  [key %s]" % (v["where"], v["rule"], v["fn"], v["message"], v["key"]))
            print("VIOLATION property=%s replay=%s" % (self.prop, rp))
        held = [i for i in self.instances if i["verdict"] == "holds"]
        samples = []
        seen_rules = set()
        for i in self.instances:
            if i["rule"] not in seen_rules or i["verdict"] != "holds":
                samples.append(i)
                seen_rules.add(i["rule"])
        for i in self.instances:
            if len(samples) >= 40:
                break
            if i not in samples:
                samples.append(i)
        cov = {
            "explanation": self.extra.pop("explanation", ""),
            "evaluations": len(self.instances),
            "distinct_nontrivial": len(self.sites),
            "rule": "one evaluation = one rule instance (rule x function x construct) decided on the current source; "
                    "distinct_nontrivial counts distinct (rule, function, construct) sites whose antecedent matched "
                    "(logging/expansion-only sites are skipped and not counted)",
            "samples": samples[:40],
            "rules": self.rules,
            "functions_analysed": sorted(self.functions),
            "n_functions": len(self.functions),
            "instances_held": len(held),
            "floors": [{"name": n, "found": c, "floor": f, "met": c >= f} for (n, c, f) in self.floors],
            "configs": self.configs,
            "known_findings_matched": [v["key"] for v in kf],
            "not_decided": self.not_decided,
            "notes": self.notes,
        }
        if self.obligations is not None:
            cov["obligations"] = len(self.obligations)
            cov["discharged"] = sum(1 for o in self.obligations if o[1])
            cov["obligation_list"] = [{"name": o[0], "discharged": o[1], "detail": o[2]} for o in self.obligations]
            cov["checker_cmd"] = self.extra.pop("checker_cmd", "bin/pmhcheck %s" % self.prop)
            cov["trusted_base"] = self.extra.pop("trusted_base", [])
        cov.update(self.extra)
        ev = {
            "property_id": self.prop,
            "tier": self.tier,
            "seed": int(os.environ.get("VERIF_SEED", "0") or 0),
            "level": self.level,
            "coverage": cov,
            "assumptions": self.assumptions or [
                "rustc's name resolution, type check and MIR construction, and the pmh-facts driver's serialisation of them",
                "the rule tables in pmh/rules (each row confirmed by reading the code) and the idiom lists of the template rules",
                "library code under cfg(test) is not library behaviour and is not analysed; configurations analysed: " + ", ".join(self.configs),
                "dependency crates (rand, rand_xoshiro, rand_chacha, wyhash, sha2, murmur3, serde_json, argmin) behave as specified",
                "a pass means the named structural clauses hold on every path of the current source, not that the statistical behaviour is right",
            ],
            "wall_s": round(wall, 3),
            "violations": len(new),
        }
        with open(os.path.join(evdir, "%s.json" % self.prop), "w") as f:
            json.dump(ev, f, indent=1)
        print("%s: %d rule instance(s) over %d function(s), %d violation(s), %d known finding(s), %.1fs"
              % (self.prop, len(self.instances), len(self.functions), len(new), len(kf), wall))
        return 1 if new else 0


def check_unsupported(ctx, facts):
    """a construct the driver could not serialise (HIR kind `Other`) inside a function some rule looked at would be
    invisible to that rule: report it instead of passing silently"""
    from . import hirq
    for fid in sorted(ctx.functions):
        fn = facts.fns.get(fid)
        if not fn or "hir" not in fn:
            continue
        for n in hirq.walk(fn["hir"]):
            if n["k"] == "Other" and not hirq.in_log_macro(n):
                ctx.violation("UNSUPPORTED", fid, "cannot-establish: construct not modelled by the analysis", hirq.loc(n),
                              "this function contains a construct the fact extractor does not model (%s); the rules of this property cannot vouch for it" % n.get("dbg", "")[:60])
                break


def evidence_dir():
    return os.environ.get("PMH_EVIDENCE_DIR") or os.path.join(VERIF, "evidence")


def write_error_evidence(prop, tier, msg, t0):
    evdir = evidence_dir()
    os.makedirs(evdir, exist_ok=True)
    ev = {"property_id": prop, "tier": tier, "seed": 0, "level": "other",
          "coverage": {"explanation": "ANALYSIS-ERROR: " + msg, "evaluations": 0, "distinct_nontrivial": 0},
          "wall_s": round(time.time() - t0, 3), "violations": 0}
    with open(os.path.join(evdir, "%s.json" % prop), "w") as f:
        json.dump(ev, f, indent=1)
