"""Source-level normalisations of the HIR trees, applied to every function before any rule runs (after the inlining of new
private helpers). Each rewrites one way of writing a thing into the way the rules are stated for; all are behaviour preserving
(conditions evaluated twice must be pure; locals have unique ids, so floating a `let` outwards captures nothing — a later
shadowing by name is handled by inline.disambiguate).

N1  match c { true => a, false => b }                      ->  if c { a } else { b }
N2  let (a, b) = if c { (x1, y1) } else { (x2, y2) }         ->  let a = if c {x1} else {x2}; let b = if c {y1} else {y2}
    let (a, b) = (x, y)                                      ->  let a = x; let b = y
N3  match (if c { K1 } else { K2 }) { arms }                 ->  if c { arm of K1 } else { arm of K2 }     K = None | Some(e) | Ok(e) | Err(e)
    match K { arms }                                         ->  arm of K
N4  let x = if c { diverge } else { E }                      ->  if c { diverge }; let x = E          (and the mirrored form)
N5  let x = { S; e }  /  y = { S; e }                        ->  S; let x = e  /  S; y = e
N6  loop { if c { break } rest }                             ->  while !c { rest }      (in the desugared shape of a `while`)
"""
import copy

from . import hirq


def _pure(e):
    for x in hirq.walk(e):
        if x["k"] in ("Assign", "AssignOp", "Closure", "Loop", "Ret", "Break", "Continue"):
            return False
        if x["k"] == "MethodCall" and x.get("recv_ty", "").startswith("&mut "):
            return False
        if x["k"] == "AddrOf" and x.get("mut"):
            return False
        if x["k"] == "Call" and x.get("callee", "").split("::")[-1] not in ("Some", "Ok", "Err"):
            return False
    return True


def _bool_lit(p):
    if p.get("k") != "Lit":
        return None
    d = p.get("dbg", "")
    return True if "Bool(true)" in d else False if "Bool(false)" in d else None


def _unblock(e):
    while e["k"] == "Block" and not e["stmts"] and "expr" in e:
        e = e["expr"]
    return e


def _diverges(n):
    n = _unblock(n)
    k = n["k"]
    if k in ("Ret", "Break", "Continue"):
        return True
    if k == "Block":
        last = n.get("expr")
        if last is None and n["stmts"]:
            last = n["stmts"][-1]
        return last is not None and _diverges(last)
    if k == "If" and "e" in n:
        return _diverges(n["t"]) and _diverges(n["e"])
    return False


def n1_bool_match(root):
    n = 0
    for x in hirq.walk(root):
        if x["k"] == "Match" and x.get("src") == "Normal" and len(x.get("arms", [])) == 2 and not any(a.get("guard") for a in x["arms"]) \
                and not hirq.from_expansion(x):
            vals = [_bool_lit(a["pat"]) for a in x["arms"]]
            wild = [a["pat"].get("k") == "Wild" for a in x["arms"]]
            if vals[0] is not None and (vals[1] == (not vals[0]) or wild[1]):
                t_arm = x["arms"][0] if vals[0] else x["arms"][1]
                f_arm = x["arms"][1] if vals[0] else x["arms"][0]
                cond, tb, fb = x["e"], t_arm["body"], f_arm["body"]
                keep = {k: x[k] for k in ("id", "ty", "sp") if k in x}
                x.clear()
                x.update(keep)
                x.update({"k": "If", "c": cond, "t": tb, "e": fb})
                n += 1
    return n


def _ctor(e):
    """('None',) / ('Some', arg) / ('Ok', arg) / ('Err', arg) for an Option/Result constructor expression"""
    e = _unblock(e)
    if e["k"] == "Path" and str(e.get("res", {}).get("path", "")).split("::")[-1] == "None":
        return ("None", None)
    if e["k"] == "Call" and len(e.get("args", [])) == 1:
        c = (e.get("callee") or hirq.show(e["f"])).split("::")[-1]
        if c in ("Some", "Ok", "Err"):
            return (c, e["args"][0])
    return None


def _arm_for(m, ctor):
    """the arm of match m selected by the constructor, as an expression (with `let p = arg` when the arm binds the payload)"""
    name, arg = ctor
    for a in m["arms"]:
        if a.get("guard"):
            return None
        p = a["pat"]
        shown = hirq.show_pat(p)
        if p.get("k") == "Wild" or shown == "_":
            return a["body"]
        if name == "None":
            if p.get("k") in ("Lit", "Path") and not shown.startswith(("Some(", "Ok(", "Err(")):
                return a["body"]
            continue
        if p.get("k") == "TupleStruct" and shown.startswith(name + "(") and len(p.get("subs", [])) == 1:
            sub = p["subs"][0]
            if sub.get("k") == "Wild":
                return a["body"]
            if sub.get("k") == "Bind" and "sub" not in sub:
                let = {"k": "Let", "pat": sub, "init": arg, "sp": list(m["sp"])}
                body = a["body"]
                if body["k"] == "Block":
                    nb = dict(body)
                    nb["stmts"] = [let] + list(body["stmts"])
                    return nb
                return {"k": "Block", "stmts": [let], "expr": body, "sp": list(m["sp"]), "ty": m.get("ty", "")}
            return None
    return None


def n3_match_of_known(root):
    n = 0
    for x in hirq.walk(root):
        if x["k"] != "Match" or x.get("src") != "Normal" or hirq.from_expansion(x):
            continue
        scr = _unblock(x["e"])
        c = _ctor(scr)
        if c is not None:
            arm = _arm_for(x, c)
            if arm is not None:
                keep = {k: x[k] for k in ("id", "ty", "sp") if k in x}
                x.clear()
                x.update(keep)
                x.update({"k": "Block", "stmts": [], "expr": arm})
                n += 1
            continue
        if scr["k"] == "If" and "e" in scr:
            ca, cb = _ctor(scr["t"]), _ctor(scr["e"])
            # the branches may carry statements before the constructor
            def split(br):
                b = br
                st = []
                while b["k"] == "Block" and "expr" in b:
                    st += list(b["stmts"])
                    b = b["expr"]
                return st, _ctor(b)
            sa, ca = split(scr["t"])
            sb, cb = split(scr["e"])
            if ca is not None and cb is not None:
                aa, ab = _arm_for(x, ca), _arm_for(x, cb)
                if aa is not None and ab is not None:
                    keep = {k: x[k] for k in ("id", "ty", "sp") if k in x}
                    cond = scr["c"]
                    x.clear()
                    x.update(keep)
                    x.update({"k": "If", "c": cond,
                              "t": {"k": "Block", "stmts": sa, "expr": copy.deepcopy(aa), "sp": list(keep.get("sp", []))},
                              "e": {"k": "Block", "stmts": sb, "expr": copy.deepcopy(ab), "sp": list(keep.get("sp", []))}})
                    n += 1
    return n


def _blocks(root):
    return [x for x in hirq.walk(root) if x["k"] == "Block"]


def n2_tuples(root):
    n = 0
    for b in _blocks(root):
        new = []
        for st in b["stmts"]:
            if st["k"] == "Let" and st["pat"].get("k") == "Tuple" and "init" in st and "else" not in st:
                ini = _unblock(st["init"])
                subs = st["pat"].get("subs", [])
                simple = all(q.get("k") in ("Bind", "Wild") and "sub" not in q for q in subs)
                if simple and ini["k"] == "Tup" and len(ini.get("es", [])) == len(subs):
                    for q, e in zip(subs, ini["es"]):
                        new.append({"k": "Let", "pat": q, "init": e, "sp": list(st["sp"])})
                    n += 1
                    continue
                if simple and ini["k"] == "If" and "e" in ini and _pure(ini["c"]):
                    ta, tb = _unblock(ini["t"]), _unblock(ini["e"])
                    if ta["k"] == "Tup" and tb["k"] == "Tup" and len(ta["es"]) == len(subs) == len(tb["es"]) and all(_pure(e) for e in ta["es"] + tb["es"]):
                        for i, q in enumerate(subs):
                            new.append({"k": "Let", "pat": q, "sp": list(st["sp"]),
                                        "init": {"k": "If", "c": copy.deepcopy(ini["c"]), "t": ta["es"][i], "e": tb["es"][i], "sp": list(ini["sp"]), "ty": q.get("ty", "")}})
                        n += 1
                        continue
            new.append(st)
        b["stmts"] = new
    return n


def n45_let_floating(root):
    n = 0
    for b in _blocks(root):
        changed = True
        while changed:
            changed = False
            new = []
            for st in b["stmts"]:
                key = "init" if st["k"] == "Let" and "else" not in st else "r" if st["k"] == "Assign" else None
                if key and key in st:
                    ini = _unblock(st[key])
                    # N5: block with statements
                    if ini["k"] == "Block" and ini["stmts"] and "expr" in ini and not ini.get("unsafe") and not hirq.from_expansion(ini) \
                            and not any(hirq.from_expansion(s_) and not s_.get("inl") for s_ in ini["stmts"]):
                        new.extend(ini["stmts"])
                        st[key] = ini["expr"]
                        new.append(st)
                        n += 1
                        changed = True
                        continue
                    iu = _unblock(ini)
                    # N4: one branch diverges
                    if st["k"] == "Let" and iu["k"] == "If" and "e" in iu and not hirq.from_expansion(iu):
                        if _diverges(iu["t"]) and not _diverges(iu["e"]):
                            new.append({"k": "If", "c": iu["c"], "t": iu["t"], "sp": list(iu["sp"]), "ty": "()"})
                            st[key] = iu["e"]
                            new.append(st)
                            n += 1
                            changed = True
                            continue
                        if _diverges(iu["e"]) and not _diverges(iu["t"]):
                            neg = {"k": "Unary", "op": "!", "e": iu["c"], "ty": "bool", "sp": list(iu["c"].get("sp", iu["sp"]))}
                            new.append({"k": "If", "c": neg, "t": iu["e"], "sp": list(iu["sp"]), "ty": "()"})
                            st[key] = iu["t"]
                            new.append(st)
                            n += 1
                            changed = True
                            continue
                new.append(st)
            b["stmts"] = new
    return n


def n6_loop_break_to_while(root):
    n = 0
    for lp in [x for x in hirq.walk(root) if x["k"] == "Loop" and x.get("src") == "Loop"]:
        body = lp["body"]
        if body["k"] != "Block":
            continue
        stmts = list(body["stmts"])
        lead = [s_ for s_ in stmts if hirq.in_log_macro(s_)]
        rest = [s_ for s_ in stmts if not hirq.in_log_macro(s_)]
        if not rest or stmts[:len(lead)] != lead and lead:
            pass
        first = rest[0] if rest else None
        if first is None or first["k"] != "If" or "e" in first:
            continue
        tb = first["t"]
        only = (list(tb["stmts"]) + ([tb["expr"]] if "expr" in tb else [])) if tb["k"] == "Block" else [tb]
        only = [s_ for s_ in only if not hirq.in_log_macro(s_)]
        if len(only) != 1 or only[0]["k"] != "Break" or only[0].get("target") != lp.get("id") or "e" in only[0]:
            continue
        if stmts.index(first) != 0:
            continue      # something (logging) precedes the test in every iteration: keep as written
        brk = dict(only[0])
        sp = list(brk.get("sp", first["sp"]))
        sp[3] = True
        sp[4] = sp[4] or "desugar:WhileLoop"
        sp[5] = sp[5] or "desugar:WhileLoop"
        brk["sp"] = sp
        neg = {"k": "Unary", "op": "!", "e": first["c"], "ty": "bool", "sp": list(first["c"].get("sp", first["sp"]))}
        then_blk = {"k": "Block", "stmts": stmts[1:], "sp": list(body["sp"]), "ty": "()"}
        if "expr" in body:
            then_blk["expr"] = body["expr"]
        new_if = {"k": "If", "c": neg, "t": then_blk, "e": {"k": "Block", "stmts": [brk], "sp": sp, "ty": "!"}, "sp": list(first["sp"]), "ty": "()"}
        lp["src"] = "While"
        lp["body"] = {"k": "Block", "stmts": [], "expr": new_if, "sp": list(body["sp"]), "ty": "()"}
        n += 1
    return n


def _reads_local(n, lid):
    return any(x["k"] == "Path" and x.get("res", {}).get("local") == lid for x in hirq.walk(n))


def _assigned_places(n):
    """names of locals / self fields assigned (or mutably borrowed / mutated through a method with a &mut receiver) inside n"""
    out = set()
    for x in hirq.walk(n):
        tgt = None
        if x["k"] in ("Assign", "AssignOp"):
            tgt = x["l"]
        elif x["k"] == "AddrOf" and x.get("mut"):
            tgt = x["e"]
        elif x["k"] == "MethodCall" and str(x.get("recv_ty", "")).startswith("&mut "):
            tgt = x["recv"]
        if tgt is None:
            continue
        cur = tgt
        via_field = False
        while cur["k"] in ("Index", "Field", "AddrOf", "Unary", "MethodCall"):
            if cur["k"] == "Field" and cur["base"]["k"] == "Path" and cur["base"].get("res", {}).get("name") == "self":
                out.add("self." + cur["name"])
                via_field = True
            cur = cur.get("base") or cur.get("e") or cur.get("recv")
            if cur is None:
                break
        if cur is not None and cur["k"] == "Path" and "local" in cur.get("res", {}):
            if cur["res"]["name"] == "self":
                if not via_field:
                    out.add("self.*")
            else:
                out.add(cur["res"]["name"])
    return out


def n7_counted_while_to_for(root):
    """`let mut c = INIT; while c < N { BODY; c += 1; }` -> `for c in INIT..N { BODY }` when that is the same program: the step is the
    last statement of the body and the only write to c, the body has no `continue` for this loop, N is not changed by the body, and
    c is not read after the loop. The rewritten loop has exactly the shape rustc gives a `for` over a range, so every rule sees the
    loop it would see had it been written with `for` (rules that handle a step in the middle of the body use rulelib.counted_loop)."""
    n = 0
    for blk in [x for x in hirq.walk(root) if x["k"] == "Block"]:
        stmts = blk["stmts"]
        for i in range(1, len(stmts) + (1 if "expr" in blk else 0)):
            lp = stmts[i] if i < len(stmts) else blk["expr"]
            let = stmts[i - 1]
            if lp["k"] != "Loop" or lp.get("src") != "While" or let["k"] != "Let" or let["pat"].get("k") != "Bind" or "init" not in let:
                continue
            body = lp["body"]
            first = body.get("expr") if not body["stmts"] else None
            if first is None or first["k"] != "If" or "e" not in first or first["t"]["k"] != "Block" or "expr" in first["t"]:
                continue
            c = first["c"]
            while c["k"] == "Block" and not c["stmts"] and "expr" in c:
                c = c["expr"]
            lid, name = let["pat"]["id"], let["pat"]["name"]
            if c["k"] != "Binary" or c["op"] != "<" or c["l"]["k"] != "Path" or c["l"].get("res", {}).get("local") != lid:
                continue
            bound = c["r"]
            inner = first["t"]["stmts"]
            if not inner:
                continue
            step = inner[-1]
            ok_step = step["k"] == "AssignOp" and step["op"] == "+=" and step["l"]["k"] == "Path" and step["l"]["res"].get("local") == lid \
                and step["r"]["k"] == "Lit" and step["r"].get("v") in ("1", "1usize", "1u64", "1u32", "1i32", "1i64")
            if not ok_step:
                continue
            rest = inner[:-1]
            writes = [x for s_ in rest for x in hirq.walk(s_) if (x["k"] in ("Assign", "AssignOp") and x["l"]["k"] == "Path" and x["l"]["res"].get("local") == lid)
                      or (x["k"] == "AddrOf" and x.get("mut") and x["e"]["k"] == "Path" and x["e"]["res"].get("local") == lid)]
            conts = [x for s_ in rest for x in hirq.walk(s_) if x["k"] == "Continue" and x.get("target") == lp.get("id")]
            if writes or conts or not _pure(bound) or _reads_local(bound, lid):
                continue
            assigned = set()
            for s_ in rest:
                assigned |= _assigned_places(s_)
            reads_b = {x["res"]["name"] for x in hirq.walk(bound) if x["k"] == "Path" and "local" in x.get("res", {}) and x["res"]["name"] != "self"} | \
                      {"self." + x["name"] for x in hirq.walk(bound) if x["k"] == "Field" and x["base"]["k"] == "Path" and x["base"].get("res", {}).get("name") == "self"}
            if (reads_b & assigned) or ("self.*" in assigned and any(r_.startswith("self") for r_ in reads_b)) or any(x["k"] in ("Call", "MethodCall") for x in hirq.walk(bound)):
                continue
            later = stmts[i + 1:] + ([blk["expr"]] if "expr" in blk and i < len(stmts) else [])
            if any(_reads_local(s_, lid) for s_ in later):
                continue
            sp = list(lp.get("sp", let["sp"]))
            dsp = sp[:3] + [True, "desugar:ForLoop", "desugar:ForLoop"] + sp[6:]
            ty = let["pat"].get("ty", "usize")
            rng = {"k": "Struct", "res": {"def": "Struct", "path": "std::ops::Range"}, "ty": "std::ops::Range<%s>" % ty, "sp": dsp[:3] + [True, "desugar:RangeExpr", "desugar:RangeExpr"] + sp[6:],
                   "fields": [{"name": "start", "e": let["init"], "shorthand": False}, {"name": "end", "e": bound, "shorthand": False}]}
            pat = dict(let["pat"])
            pat["mode"] = "BindingMode(No, Not)"
            brk = {"k": "Break", "target": lp.get("id"), "sp": dsp, "ty": "!"}
            nxt = {"k": "Call", "f": {"k": "Path", "res": {"def": "AssocFn", "path": "std::iter::Iterator::next"}, "sp": dsp}, "callee": "std::iter::Iterator::next",
                   "args": [{"k": "AddrOf", "mut": True, "e": {"k": "Path", "res": {"local": -lid, "name": "iter"}, "sp": dsp}, "sp": dsp}], "substs": [], "resolved": "std::iter::Iterator::next", "sp": dsp, "ty": "std::option::Option<%s>" % ty}
            inner_m = {"k": "Match", "src": "ForLoopDesugar", "e": nxt, "sp": dsp, "ty": "()", "arms": [
                {"pat": {"k": "Struct", "res": {"def": "Variant", "path": "std::prelude::v1::None"}, "fields": [], "sp": dsp}, "body": brk},
                {"pat": {"k": "Struct", "res": {"def": "Variant", "path": "std::prelude::v1::Some"}, "fields": [{"name": "0", "pat": pat}], "sp": dsp},
                 "body": {"k": "Block", "stmts": rest, "unsafe": False, "sp": list(first["t"]["sp"]), "ty": "()"}}]}
            new_lp = {"k": "Loop", "id": lp.get("id"), "src": "ForLoop", "sp": sp, "ty": "()", "body": {"k": "Block", "stmts": [inner_m], "unsafe": False, "sp": dsp, "ty": "()"}}
            outer = {"k": "Match", "src": "ForLoopDesugar", "sp": sp, "ty": "()",
                     "e": {"k": "Call", "f": {"k": "Path", "res": {"def": "AssocFn", "path": "std::iter::IntoIterator::into_iter"}, "sp": dsp}, "callee": "std::iter::IntoIterator::into_iter",
                           "args": [rng], "substs": [], "resolved": "std::iter::IntoIterator::into_iter", "sp": dsp, "ty": "std::ops::Range<%s>" % ty},
                     "arms": [{"pat": {"k": "Bind", "id": -lid, "name": "iter", "mode": "BindingMode(No, Mut)", "sp": dsp}, "body": new_lp}]}
            if i < len(stmts):
                stmts[i - 1:i + 1] = [outer]
            else:
                stmts[i - 1:i] = []
                blk["expr"] = outer
            n += 1
            break
    return n


def normalise(root):
    """all normalisations to a fixpoint (bounded); returns the number of rewrites"""
    total = 0
    for _ in range(4):
        n = n1_bool_match(root) + n3_match_of_known(root) + n2_tuples(root) + n45_let_floating(root) + n6_loop_break_to_while(root) + n7_counted_while_to_for(root)
        total += n
        if not n:
            break
    return total
