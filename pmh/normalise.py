"""Source-level normalisations of the HIR trees, applied to every function before any rule runs (after the inlining of new
private helpers). Each rewrites one way of writing a thing into the way the rules are stated for; all are behaviour preserving
(conditions evaluated twice must be pure; locals have unique ids, so floating a `let` outwards captures nothing — a later
shadowing by name is handled by inline.disambiguate).

N1  match c { true => a, false => b }                      ->  if c { a } else { b }
N2  let (a, b) = if c { (x1, y1) } else { (x2, y2) }         ->  let a = if c {x1} else {x2}; let b = if c {y1} else {y2}
    let (a, b) = (x, y)                                      ->  let a = x; let b = y
N3  match (if c { K1 } else { K2 }) { arms }                 ->  if c { arm of K1 } else { arm of K2 }     K = None | Some(e) | Ok(e) | Err(e)
    match K { arms }                                         ->  arm of K
N4  let x = if c { diverge } else { E }                      ->  if c { diverge }; let x = E          (and the mirrored form)
N5  let x = { S; e }  /  y = { S; e }                        ->  S; let x = e  /  S; y = e
N6  loop { if c { break } rest }                             ->  while !c { rest }      (in the desugared shape of a `while`)
"""
import copy

from . import hirq


def _pure(e):
    for x in hirq.walk(e):
        if x["k"] in ("Assign", "AssignOp", "Closure", "Loop", "Ret", "Break", "Continue"):
            return False
        if x["k"] == "MethodCall" and x.get("recv_ty", "").startswith("&mut "):
            return False
        if x["k"] == "AddrOf" and x.get("mut"):
            return False
        if x["k"] == "Call" and x.get("callee", "").split("::")[-1] not in ("Some", "Ok", "Err"):
            return False
    return True


def _bool_lit(p):
    if p.get("k") != "Lit":
        return None
    d = p.get("dbg", "")
    return True if "Bool(true)" in d else False if "Bool(false)" in d else None


def _unblock(e):
    while e["k"] == "Block" and not e["stmts"] and "expr" in e:
        e = e["expr"]
    return e


def _diverges(n):
    n = _unblock(n)
    k = n["k"]
    if k in ("Ret", "Break", "Continue"):
        return True
    if k == "Block":
        last = n.get("expr")
        if last is None and n["stmts"]:
            last = n["stmts"][-1]
        return last is not None and _diverges(last)
    if k == "If" and "e" in n:
        return _diverges(n["t"]) and _diverges(n["e"])
    return False


def n1_bool_match(root):
    n = 0
    for x in hirq.walk(root):
        if x["k"] == "Match" and x.get("src") == "Normal" and len(x.get("arms", [])) == 2 and not any(a.get("guard") for a in x["arms"]) \
                and not hirq.from_expansion(x):
            vals = [_bool_lit(a["pat"]) for a in x["arms"]]
            wild = [a["pat"].get("k") == "Wild" for a in x["arms"]]
            if vals[0] is not None and (vals[1] == (not vals[0]) or wild[1]):
                t_arm = x["arms"][0] if vals[0] else x["arms"][1]
                f_arm = x["arms"][1] if vals[0] else x["arms"][0]
                cond, tb, fb = x["e"], t_arm["body"], f_arm["body"]
                keep = {k: x[k] for k in ("id", "ty", "sp") if k in x}
                x.clear()
                x.update(keep)
                x.update({"k": "If", "c": cond, "t": tb, "e": fb})
                n += 1
    return n


def _ctor(e):
    """('None',) / ('Some', arg) / ('Ok', arg) / ('Err', arg) for an Option/Result constructor expression"""
    e = _unblock(e)
    if e["k"] == "Path" and str(e.get("res", {}).get("path", "")).split("::")[-1] == "None":
        return ("None", None)
    if e["k"] == "Call" and len(e.get("args", [])) == 1:
        c = (e.get("callee") or hirq.show(e["f"])).split("::")[-1]
        if c in ("Some", "Ok", "Err"):
            return (c, e["args"][0])
    return None


def _arm_for(m, ctor):
    """the arm of match m selected by the constructor, as an expression (with `let p = arg` when the arm binds the payload)"""
    name, arg = ctor
    for a in m["arms"]:
        if a.get("guard"):
            return None
        p = a["pat"]
        shown = hirq.show_pat(p)
        if p.get("k") == "Wild" or shown == "_":
            return a["body"]
        if name == "None":
            if p.get("k") in ("Lit", "Path") and not shown.startswith(("Some(", "Ok(", "Err(")):
                return a["body"]
            continue
        if p.get("k") == "TupleStruct" and shown.startswith(name + "(") and len(p.get("subs", [])) == 1:
            sub = p["subs"][0]
            if sub.get("k") == "Wild":
                return a["body"]
            if sub.get("k") == "Bind" and "sub" not in sub:
                let = {"k": "Let", "pat": sub, "init": arg, "sp": list(m["sp"])}
                body = a["body"]
                if body["k"] == "Block":
                    nb = dict(body)
                    nb["stmts"] = [let] + list(body["stmts"])
                    return nb
                return {"k": "Block", "stmts": [let], "expr": body, "sp": list(m["sp"]), "ty": m.get("ty", "")}
            return None
    return None


def n3_match_of_known(root):
    n = 0
    for x in hirq.walk(root):
        if x["k"] != "Match" or x.get("src") != "Normal" or hirq.from_expansion(x):
            continue
        scr = _unblock(x["e"])
        c = _ctor(scr)
        if c is not None:
            arm = _arm_for(x, c)
            if arm is not None:
                keep = {k: x[k] for k in ("id", "ty", "sp") if k in x}
                x.clear()
                x.update(keep)
                x.update({"k": "Block", "stmts": [], "expr": arm})
                n += 1
            continue
        if scr["k"] == "If" and "e" in scr:
            ca, cb = _ctor(scr["t"]), _ctor(scr["e"])
            # the branches may carry statements before the constructor
            def split(br):
                b = br
                st = []
                while b["k"] == "Block" and "expr" in b:
                    st += list(b["stmts"])
                    b = b["expr"]
                return st, _ctor(b)
            sa, ca = split(scr["t"])
            sb, cb = split(scr["e"])
            if ca is not None and cb is not None:
                aa, ab = _arm_for(x, ca), _arm_for(x, cb)
                if aa is not None and ab is not None:
                    keep = {k: x[k] for k in ("id", "ty", "sp") if k in x}
                    cond = scr["c"]
                    x.clear()
                    x.update(keep)
                    x.update({"k": "If", "c": cond,
                              "t": {"k": "Block", "stmts": sa, "expr": copy.deepcopy(aa), "sp": list(keep.get("sp", []))},
                              "e": {"k": "Block", "stmts": sb, "expr": copy.deepcopy(ab), "sp": list(keep.get("sp", []))}})
                    n += 1
    return n


def _blocks(root):
    return [x for x in hirq.walk(root) if x["k"] == "Block"]


def n2_tuples(root):
    n = 0
    for b in _blocks(root):
        new = []
        for st in b["stmts"]:
            if st["k"] == "Let" and st["pat"].get("k") == "Tuple" and "init" in st and "else" not in st:
                ini = _unblock(st["init"])
                subs = st["pat"].get("subs", [])
                simple = all(q.get("k") in ("Bind", "Wild") and "sub" not in q for q in subs)
                if simple and ini["k"] == "Tup" and len(ini.get("es", [])) == len(subs):
                    for q, e in zip(subs, ini["es"]):
                        new.append({"k": "Let", "pat": q, "init": e, "sp": list(st["sp"])})
                    n += 1
                    continue
                if simple and ini["k"] == "If" and "e" in ini and _pure(ini["c"]):
                    ta, tb = _unblock(ini["t"]), _unblock(ini["e"])
                    if ta["k"] == "Tup" and tb["k"] == "Tup" and len(ta["es"]) == len(subs) == len(tb["es"]) and all(_pure(e) for e in ta["es"] + tb["es"]):
                        for i, q in enumerate(subs):
                            new.append({"k": "Let", "pat": q, "sp": list(st["sp"]),
                                        "init": {"k": "If", "c": copy.deepcopy(ini["c"]), "t": ta["es"][i], "e": tb["es"][i], "sp": list(ini["sp"]), "ty": q.get("ty", "")}})
                        n += 1
                        continue
            new.append(st)
        b["stmts"] = new
    return n


def n45_let_floating(root):
    n = 0
    for b in _blocks(root):
        changed = True
        while changed:
            changed = False
            new = []
            for st in b["stmts"]:
                key = "init" if st["k"] == "Let" and "else" not in st else "r" if st["k"] == "Assign" else None
                if key and key in st:
                    ini = _unblock(st[key])
                    # N5: block with statements
                    if ini["k"] == "Block" and ini["stmts"] and "expr" in ini and not ini.get("unsafe") and not hirq.from_expansion(ini) \
                            and not any(hirq.from_expansion(s_) and not s_.get("inl") for s_ in ini["stmts"]):
                        new.extend(ini["stmts"])
                        st[key] = ini["expr"]
                        new.append(st)
                        n += 1
                        changed = True
                        continue
                    iu = _unblock(ini)
                    # N4: one branch diverges
                    if st["k"] == "Let" and iu["k"] == "If" and "e" in iu and not hirq.from_expansion(iu):
                        if _diverges(iu["t"]) and not _diverges(iu["e"]):
                            new.append({"k": "If", "c": iu["c"], "t": iu["t"], "sp": list(iu["sp"]), "ty": "()"})
                            st[key] = iu["e"]
                            new.append(st)
                            n += 1
                            changed = True
                            continue
                        if _diverges(iu["e"]) and not _diverges(iu["t"]):
                            neg = {"k": "Unary", "op": "!", "e": iu["c"], "ty": "bool", "sp": list(iu["c"].get("sp", iu["sp"]))}
                            new.append({"k": "If", "c": neg, "t": iu["e"], "sp": list(iu["sp"]), "ty": "()"})
                            st[key] = iu["t"]
                            new.append(st)
                            n += 1
                            changed = True
                            continue
                new.append(st)
            b["stmts"] = new
    return n


def n6_loop_break_to_while(root):
    n = 0
    for lp in [x for x in hirq.walk(root) if x["k"] == "Loop" and x.get("src") == "Loop"]:
        body = lp["body"]
        if body["k"] != "Block":
            continue
        stmts = list(body["stmts"])
        lead = [s_ for s_ in stmts if hirq.in_log_macro(s_)]
        rest = [s_ for s_ in stmts if not hirq.in_log_macro(s_)]
        if not rest or stmts[:len(lead)] != lead and lead:
            pass
        first = rest[0] if rest else None
        if first is None or first["k"] != "If" or "e" in first:
            continue
        tb = first["t"]
        only = (list(tb["stmts"]) + ([tb["expr"]] if "expr" in tb else [])) if tb["k"] == "Block" else [tb]
        only = [s_ for s_ in only if not hirq.in_log_macro(s_)]
        if len(only) != 1 or only[0]["k"] != "Break" or only[0].get("target") != lp.get("id") or "e" in only[0]:
            continue
        if stmts.index(first) != 0:
            continue      # something (logging) precedes the test in every iteration: keep as written
        brk = dict(only[0])
        sp = list(brk.get("sp", first["sp"]))
        sp[3] = True
        sp[4] = sp[4] or "desugar:WhileLoop"
        sp[5] = sp[5] or "desugar:WhileLoop"
        brk["sp"] = sp
        neg = {"k": "Unary", "op": "!", "e": first["c"], "ty": "bool", "sp": list(first["c"].get("sp", first["sp"]))}
        then_blk = {"k": "Block", "stmts": stmts[1:], "sp": list(body["sp"]), "ty": "()"}
        if "expr" in body:
            then_blk["expr"] = body["expr"]
        new_if = {"k": "If", "c": neg, "t": then_blk, "e": {"k": "Block", "stmts": [brk], "sp": sp, "ty": "!"}, "sp": list(first["sp"]), "ty": "()"}
        lp["src"] = "While"
        lp["body"] = {"k": "Block", "stmts": [], "expr": new_if, "sp": list(body["sp"]), "ty": "()"}
        n += 1
    return n


def normalise(root):
    """all normalisations to a fixpoint (bounded); returns the number of rewrites"""
    total = 0
    for _ in range(4):
        n = n1_bool_match(root) + n3_match_of_known(root) + n2_tuples(root) + n45_let_floating(root) + n6_loop_break_to_while(root)
        total += n
        if not n:
            break
    return total
