"""Normal forms of HIR expressions and conditions (for comparing constructs with each other)."""
from . import hirq

TRANSPARENT_CALLS = {"clone", "to_owned", "borrow", "as_ref", "deref", "into", "copied", "cloned"}


def strip(n):
    """remove wrappers that do not change the value: blocks with only a tail, & and *, transparent calls"""
    while True:
        k = n["k"]
        if k == "Block" and "expr" in n and all(hirq.in_log_macro(s) for s in n["stmts"]):
            n = n["expr"]
        elif k == "AddrOf":
            n = n["e"]
        elif k == "Unary" and n["op"] == "*":
            n = n["e"]
        elif k == "MethodCall" and n["name"] in TRANSPARENT_CALLS and not n["args"]:
            n = n["recv"]
        else:
            return n


def strip_casts(n):
    while True:
        n = strip(n)
        if n["k"] == "Cast":
            n = n["e"]
        else:
            return n


class Resolver:
    """maps immutable, singly-defined `let` locals of one function to their initialisers, so that normal forms do not
    depend on the names of such locals.

    `lookup(lid, at)` is position aware: the initialiser is returned for the use `at` only if nothing it reads (fields of
    self, mutable locals, transitively through other immutable locals) can have been written between the `let` and that
    use — no write in source order between them, and no write inside a loop that contains the use but not the `let`.
    A use inside the writing statement itself (`self.i = first + 1`) is evaluated before the write and is fine.
    Without `at` the initialiser is returned unconditionally (callers that only look at the shape of the definition)."""

    def __init__(self, fn):
        self.defs = {}
        self.lets = {}
        self.pos = {}
        self.end = {}
        self._reads = {}
        self.keeps_len = set()  # ids of write nodes that cannot change the length of the container they write
        self.writes = []       # (node, place) ; place = ("self", field) | ("self", "*") | ("local", id)
        self.loops = []
        root = fn["hir"]
        order = list(hirq.walk(root))
        for i, x in enumerate(order):
            self.pos[id(x)] = i
        # subtree end = max position in the subtree (computed by a reverse sweep over parents)
        par = {}
        for x in order:
            for c in hirq.children(x):
                par[id(c)] = x
        for x in order:
            self.end[id(x)] = self.pos[id(x)]
        for x in reversed(order):
            p_ = par.get(id(x))
            if p_ is not None and self.end[id(x)] > self.end[id(p_)]:
                self.end[id(p_)] = self.end[id(x)]
        self.mut_locals = set()
        for x in order:
            k = x["k"]
            if k == "Let" and x["pat"]["k"] == "Bind" and "sub" not in x["pat"]:
                if "Mut" in x["pat"].get("mode", ""):
                    self.mut_locals.add(x["pat"]["id"])
                elif "init" in x and strip(x["init"])["k"] != "Loop":
                    self.defs[x["pat"]["id"]] = x["init"]
                    self.lets[x["pat"]["id"]] = x
            elif k == "Loop":
                self.loops.append(x)
        for x in order:
            k = x["k"]
            if k in ("Assign", "AssignOp"):
                pl = _place(x["l"])
                if pl:
                    self.writes.append((x, pl))
                    if _through_index(x["l"]):
                        self.keeps_len.add(id(x))
            elif k == "MethodCall":
                rt = x.get("recv_ty", "")
                if rt.startswith("&mut "):
                    pl = _place(x["recv"])
                    if pl:
                        self.writes.append((x, pl))
                        if x["name"] in LEN_PRESERVING or _through_index(x["recv"]):
                            self.keeps_len.add(id(x))
            elif k == "AddrOf" and x.get("mut"):
                pl = _place(x["e"])
                if pl:
                    self.writes.append((x, pl))

    def reads(self, lid, _seen=None):
        """places the initialiser of lid reads, through immutable locals"""
        if lid in self._reads:
            return self._reads[lid]
        _seen = _seen or set()
        out = set()
        if lid in _seen:
            return out
        _seen.add(lid)
        d = self.defs.get(lid)
        if d is not None:
            # places that the initialiser only uses as the target of an effect (`rng` in `rng.next_u32()`, the receiver of a
            # `&mut self` method): the local names the value produced THEN; later effects on the same target do not change it
            targets = set()
            for x in hirq.walk(d):
                if x["k"] == "MethodCall" and x.get("recv_ty", "").startswith("&mut "):
                    for y in hirq.walk(x["recv"]):
                        targets.add(id(y))
                elif x["k"] == "AddrOf" and x.get("mut"):
                    for y in hirq.walk(x["e"]):
                        targets.add(id(y))
                elif x["k"] == "Path" and "local" in x["res"] and x.get("ty", "").startswith("&mut "):
                    targets.add(id(x))
            for x in hirq.walk(d):
                if x["k"] == "MethodCall" and x["name"] == "len" and not x["args"]:
                    pl = _place(x["recv"])
                    if pl and pl[0] == "self" and pl[1] != "*" and not _through_index(x["recv"]):
                        out.add(("self", pl[1], "len"))
                        for y in hirq.walk(x["recv"]):
                            targets.add(id(y))
            for x in hirq.walk(d):
                if id(x) in targets:
                    continue
                if x["k"] == "Field":
                    b = x["base"]
                    while b["k"] == "AddrOf" or (b["k"] == "Unary" and b["op"] == "*"):
                        b = b["e"]
                    if b["k"] == "Path" and "local" in b["res"] and b["res"]["name"] == "self":
                        out.add(("self", x["name"]))
                elif x["k"] == "Path" and "local" in x["res"]:
                    l2 = x["res"]["local"]
                    if x["res"]["name"] == "self":
                        continue
                    if l2 in self.defs:
                        out |= self.reads(l2, _seen)
                    else:
                        out.add(("local", l2))
                elif x["k"] == "MethodCall" and hirq.is_node(x.get("recv")):
                    b = strip(x["recv"])
                    if b["k"] == "Path" and "local" in b["res"] and b["res"]["name"] == "self":
                        out.add(("self", "*"))
        self._reads[lid] = out
        return out

    def stable(self, lid, at):
        let = self.lets.get(lid)
        pu = self.pos.get(id(at))
        if let is None or pu is None:
            return True
        rd = self.reads(lid)
        if not rd:
            return True
        p_def = self.end[id(let)]
        anyself = any(r[0] == "self" for r in rd)
        outer = [lp for lp in self.loops if self.pos[id(lp)] <= pu <= self.end[id(lp)]
                 and not (self.pos[id(lp)] <= self.pos[id(let)] <= self.end[id(lp)])]
        for (w, pl) in self.writes:
            hit = pl in rd or (pl == ("self", "*") and anyself) or (pl[0] == "self" and ("self", "*") in rd)
            if not hit and pl[0] == "self" and (pl[0], pl[1], "len") in rd and id(w) not in self.keeps_len:
                hit = True
            if not hit:
                continue
            pw, ew = self.pos[id(w)], self.end[id(w)]
            if pw <= pu <= ew:
                continue
            if p_def < pw < pu:
                return False
            if any(self.pos[id(lp)] <= pw <= self.end[id(lp)] for lp in outer):
                return False
        return True

    def lookup(self, lid, at=None):
        d = self.defs.get(lid)
        if d is None or at is None:
            return d
        return d if self.stable(lid, at) else None

    def unchecked(self):
        """a view that returns the initialiser whatever happened since: for rules that ask what a local WAS computed from and
        decide the ordering of the later writes themselves"""
        return _Unchecked(self)


class _Unchecked:
    def __init__(self, r):
        self._r = r
        self.alpha = getattr(r, "alpha", None)

    def lookup(self, lid, at=None):
        return self._r.defs.get(lid)

    def __getattr__(self, name):
        return getattr(self._r, name)


LEN_PRESERVING = {"swap", "fill", "sort", "sort_unstable", "sort_by", "sort_unstable_by", "reverse", "iter_mut", "copy_from_slice",
                  "rotate_left", "rotate_right", "fill_with", "as_mut_slice", "get_mut", "last_mut", "first_mut"}


def _through_index(n):
    cur = n
    while True:
        k = cur["k"]
        if k == "Index":
            return True
        if k == "AddrOf" or (k == "Unary" and cur["op"] == "*"):
            cur = cur["e"]
        elif k == "Field":
            cur = cur["base"]
        else:
            return False


def _place(n):
    """("self", field) / ("self", "*") / ("local", id) written through the place expression n, or None"""
    cur = n
    while True:
        k = cur["k"]
        if k == "AddrOf" or (k == "Unary" and cur["op"] == "*"):
            cur = cur["e"]
        elif k == "Index":
            cur = cur["base"]
        elif k == "Field":
            b = cur["base"]
            while b["k"] == "AddrOf" or (b["k"] == "Unary" and b["op"] == "*"):
                b = b["e"]
            if b["k"] == "Path" and "local" in b["res"] and b["res"]["name"] == "self":
                return ("self", cur["name"])
            cur = b
        elif k == "MethodCall" and cur["name"] in ("as_mut", "as_mut_slice", "iter_mut", "borrow_mut", "deref_mut", "get_mut") :
            cur = cur["recv"]
        elif k == "Path" and "local" in cur["res"]:
            if cur["res"]["name"] == "self":
                return ("self", "*")
            return ("local", cur["res"]["local"])
        else:
            return None


class AlphaResolver(Resolver):
    """a Resolver that also renames every remaining local (pattern-bound, mutable, parameters) to v1, v2, ... in order of
    first binding, for comparing two functions up to the names of their locals"""

    def __init__(self, fn):
        Resolver.__init__(self, fn)
        self.alpha = {}
        for p_ in fn.get("params", []):
            self._pat(p_["pat"])
        for x in hirq.walk(fn["hir"]):
            for key in ("pat",):
                if isinstance(x.get(key), dict):
                    self._pat(x[key])
            if x["k"] == "Match":
                for a in x["arms"]:
                    self._pat(a["pat"])
            if x["k"] == "Closure":
                for p_ in x["params"]:
                    self._pat(p_)

    def _pat(self, p_):
        k = p_["k"]
        if k == "Bind":
            if p_["id"] not in self.alpha and p_["name"] != "self":
                self.alpha[p_["id"]] = "v%d" % (len(self.alpha) + 1)
            if "sub" in p_:
                self._pat(p_["sub"])
        elif k in ("Tuple", "TupleStruct", "Or"):
            for q in p_["subs"]:
                self._pat(q)
        elif k == "Struct":
            for f in p_["fields"]:
                self._pat(f["pat"])
        elif k in ("Ref", "Deref"):
            self._pat(p_["sub"])

    def pat(self, p_):
        k = p_["k"]
        if k == "Bind":
            return self.alpha.get(p_["id"], p_["name"])
        if k == "Wild":
            return "_"
        if k == "Tuple":
            return "(" + ", ".join(self.pat(x) for x in p_["subs"]) + ")"
        if k == "TupleStruct":
            return hirq.respath(p_["res"]).split("::")[-1] + "(" + ", ".join(self.pat(x) for x in p_["subs"]) + ")"
        if k == "Ref":
            return "&" + self.pat(p_["sub"])
        if k == "Struct":
            return hirq.respath(p_["res"]).split("::")[-1] + "{" + ", ".join(self.pat(f["pat"]) for f in p_["fields"]) + "}"
        return hirq.show_pat(p_)


def nf(n, casts=False, alias=None, res=None, _depth=0):
    """canonical string of an expression; locals by name; refs/derefs/clones dropped.
    casts=True also drops `as` casts. alias: dict field name -> canonical field name.
    res: a Resolver; immutable single-definition locals are replaced by their definition"""
    n = strip_casts(n) if casts else strip(n)
    k = n["k"]
    if res is not None and k == "Path" and "local" in n["res"] and _depth < 8:
        d = res.lookup(n["res"]["local"], n)
        if d is not None:
            return nf(d, casts, alias, res, _depth + 1)
    r = lambda x: nf(x, casts, alias, res, _depth)
    if k == "Lit":
        v = n["v"]
        if n.get("lk") == "float":
            try:
                return repr(float(v))
            except ValueError:
                return v
        return v
    if k == "Path":
        res_ = n["res"]
        if "local" in res_:
            if res is not None and getattr(res, "alpha", None) and res_["local"] in res.alpha:
                return res.alpha[res_["local"]]
            return res_["name"]
        return res_.get("path", "?")
    if k == "Field":
        name = n["name"]
        if alias and name in alias:
            name = alias[name]
        return r(n["base"]) + "." + name
    if k == "Index":
        return r(n["base"]) + "[" + r(n["idx"]) + "]"
    if k == "Unary":
        return n["op"] + r(n["e"])
    if k == "Binary":
        a, b = r(n["l"]), r(n["r"])
        op = n["op"]
        if op in ("+", "*", "==", "!=", "&&", "||", "^", "&", "|") and b < a:
            a, b = b, a
        if op == ">":
            op, a, b = "<", b, a
        elif op == ">=":
            op, a, b = "<=", b, a
        return "(" + a + " " + op + " " + b + ")"
    if k == "Cast":
        return "(" + r(n["e"]) + " as " + n["ty"] + ")"
    if k == "Call":
        f = n.get("callee") or r(n["f"])
        return f + "(" + ", ".join(r(a) for a in n["args"]) + ")"
    if k == "MethodCall":
        return r(n["recv"]) + "." + n["name"] + "(" + ", ".join(r(a) for a in n["args"]) + ")"
    if k == "Tup":
        return "(" + ", ".join(r(a) for a in n["es"]) + ")"
    if k == "Struct":
        return hirq.respath(n["res"]) + "{" + ", ".join(f["name"] + ":" + r(f["e"]) for f in n["fields"]) + "}"
    if k == "If":
        return "if " + r(n["c"]) + " {" + r(n["t"]) + "}" + (" else {" + r(n["e"]) + "}" if "e" in n else "")
    sp_ = res.pat if (res is not None and hasattr(res, "pat")) else hirq.show_pat
    if k == "Closure":
        return "|" + ",".join(sp_(p) for p in n["params"]) + "| " + r(n["body"])
    if k == "Block":
        return "{" + "; ".join(r(s) for s in n["stmts"] if not hirq.in_log_macro(s)) + ("; " + r(n["expr"]) if "expr" in n else "") + "}"
    if k == "Let":
        return "let " + sp_(n["pat"]) + (" = " + r(n["init"]) if "init" in n else "")
    if k == "Assign":
        return r(n["l"]) + " = " + r(n["r"])
    if k == "AssignOp":
        return r(n["l"]) + " " + n["op"] + " " + r(n["r"])
    if k == "Ret":
        return "return " + (r(n["e"]) if "e" in n else "")
    if k == "Break":
        return "break"
    if k == "Continue":
        return "continue"
    if k == "Array":
        return "[" + ", ".join(r(a) for a in n["es"]) + "]"
    if k == "Repeat":
        return "[" + r(n["e"]) + "; _]"
    if k == "Match":
        return "match " + r(n["e"]) + " {" + ", ".join(sp_(a["pat"]) + " => " + r(a["body"]) for a in n["arms"]) + "}"
    if k == "Loop":
        return "loop[" + n["src"] + "] " + r(n["body"])
    if k == "LetExpr":
        return "let " + sp_(n["pat"]) + " = " + r(n["init"])
    return "<" + k + ">"


# ------------------------------------------------------------------------------- conditions

FLIP = {"<": ">=", "<=": ">", ">": "<=", ">=": "<", "==": "!=", "!=": "=="}


class _Override:
    """a resolver view in which some locals are bound to given expressions"""

    def __init__(self, base, mp):
        self._b = base
        self._mp = dict(mp)
        self.alpha = getattr(base, "alpha", None)
        self.defs = getattr(base, "defs", {})

    def lookup(self, lid, at=None):
        if lid in self._mp:
            return self._mp[lid]
        return self._b.lookup(lid, at)

    def __getattr__(self, name):
        return getattr(self._b, name)


def _value_if_local(expr, res, seen, depth=0):
    """first local reachable from expr (through resolvable definitions) whose definition is `if c { a } else { b }` used as a value"""
    if depth > 6:
        return None
    for x in hirq.walk(expr):
        if x["k"] == "Path" and "local" in x["res"] and x["res"]["local"] not in seen:
            lid = x["res"]["local"]
            d = res.lookup(lid, x)
            if d is None:
                continue
            ds = strip(d)
            if ds["k"] == "If" and "e" in ds:
                return (lid, ds)
            seen2 = seen | {lid}
            r = _value_if_local(d, res, seen2, depth + 1)
            if r is not None:
                return r
    return None


def alternatives(expr, res, casts=True, _depth=0):
    """[(conditions, normal form)]: the value of expr case by case, where an immutable local it depends on is defined by a value
    `if` (`let stored = if k > imax { imax } else { k }`): one alternative per branch, with the facts of that branch"""
    if res is None or _depth > 4:
        return [([], nf(expr, casts, None, res))]
    hit = _value_if_local(expr, res, set())
    if hit is None:
        return [([], nf(expr, casts, None, res))]
    lid, iff = hit
    out = []
    for pol, br in ((True, iff["t"]), (False, iff["e"])):
        b = br
        while b["k"] == "Block" and all(hirq.in_log_macro(s_) for s_ in b["stmts"]) and "expr" in b:
            b = b["expr"]
        cs = atoms(iff["c"], pol, res=res)
        for (c2, v) in alternatives(expr, _Override(res, {lid: b}), casts, _depth + 1):
            out.append((cs + c2, v))
    return out


def nf_def(n, res, casts=True):
    """normal form of what the expression n WAS computed from: if n is an immutable local, its initialiser read at the
    position of its `let` (whatever was written since — the caller decides the ordering); otherwise nf(n)"""
    m = strip_casts(n) if casts else strip(n)
    if res is not None and m["k"] == "Path" and "local" in m["res"]:
        d = res.defs.get(m["res"]["local"])
        if d is not None:
            return nf(d, casts, None, res)
    return nf(n, casts, None, res)


def atoms(cond, polarity=True, casts=True, res=None):
    """facts known to hold when `cond` evaluates to `polarity`.
    returns a list of items, each either ('cmp', lhs_nf, op, rhs_nf) with op in < <= == != (others
    normalised by swapping), ('truth', nf, bool) for opaque boolean expressions, or
    ('or', [alt1_items, alt2_items...]) for disjunctions."""
    n = strip(cond)
    k = n["k"]
    if res is not None and k == "Path" and "local" in n["res"]:
        d = res.lookup(n["res"]["local"], n)
        if d is not None:
            return atoms(d, polarity, casts, res)
    if k == "Unary" and n["op"] == "!":
        return atoms(n["e"], not polarity, casts, res)
    if k == "Binary":
        op = n["op"]
        if op == "&&":
            if polarity:
                return atoms(n["l"], True, casts, res) + atoms(n["r"], True, casts, res)
            return [("or", [atoms(n["l"], False, casts, res), atoms(n["r"], False, casts, res)])]
        if op == "||":
            if polarity:
                return [("or", [atoms(n["l"], True, casts, res), atoms(n["r"], True, casts, res)])]
            return atoms(n["l"], False, casts, res) + atoms(n["r"], False, casts, res)
        if op in FLIP:
            if not polarity:
                op = FLIP[op]
            a, b = nf(n["l"], casts, res=res), nf(n["r"], casts, res=res)
            if op == ">":
                op, a, b = "<", b, a
            elif op == ">=":
                op, a, b = "<=", b, a
            elif op in ("==", "!=") and b < a:
                a, b = b, a
            return [("cmp", a, op, b)]
    return [("truth", nf(n, casts, res=res), polarity)]


def all_conditions(tree, node, stop=None, res=None):
    """facts holding at `node` from every enclosing If (innermost first), with earlier `if c {continue}` statements read as
    nesting under !c. An arm of a source-level `match` and a `continue` buried in an earlier statement give an opaque
    ('truth', 'unmodelled ...', True) item, so that a rule that enumerates the admissible conditions does not pass over them."""
    out = []
    for (c, pol) in tree.conditions(node, stop):
        if isinstance(pol, bool):
            out.extend(atoms(c, pol, res=res))
        elif pol == "opaque":
            out.append(("truth", "unmodelled: no `continue` taken in the statement at line %s" % c.get("sp", [0, "?"])[1], True))
        elif isinstance(pol, tuple) and pol[0] == "arm" and c.get("src") == "Normal" and not hirq.from_expansion(c):
            arm = c["arms"][pol[1]]
            out.append(("truth", "unmodelled: match arm `%s` of `%s`" % (hirq.show_pat(arm["pat"])[:40], nf(c["e"], True)[:40]), True))
    return out


_NEG = {"<": ">=", "<=": ">", ">": "<=", ">=": "<", "==": "!=", "!=": "=="}


def _blit(n):
    n = strip(n)
    if n["k"] == "Lit" and n.get("v") in ("true", "false"):
        return n["v"] == "true"
    return None


def simplify_bool(n, neg=False, res=None, _depth=0):
    """negation normal form of a boolean expression as a synthetic tree of `&&` / `||` over leaves: `!` is pushed to the
    comparisons (operator flipped), `if c { A } else { B }` with boolean branches is (c && A) || (!c && B) with literal branches
    simplified, immutable locals are looked up. Leaves that are not comparisons are wrapped in `!` when negated.
    Returns a node, or True / False for a constant."""
    m = strip(n)
    k = m["k"]
    b = _blit(m)
    if b is not None:
        return (not b) if neg else b
    if res is not None and k == "Path" and "local" in m["res"] and _depth < 6:
        d = res.lookup(m["res"]["local"], m)
        if d is not None and str(m.get("ty", "bool")) == "bool":
            return simplify_bool(d, neg, res, _depth + 1)
    if k == "Unary" and m["op"] == "!":
        return simplify_bool(m["e"], not neg, res, _depth)
    if k == "Block" and "expr" in m and all(hirq.in_log_macro(s_) or s_["k"] == "Let" for s_ in m["stmts"]):
        return simplify_bool(m["expr"], neg, res, _depth)

    def mk(op, a, b_):
        # constants
        if op == "&&":
            if a is False or b_ is False:
                return False
            if a is True:
                return b_
            if b_ is True:
                return a
        else:
            if a is True or b_ is True:
                return True
            if a is False:
                return b_
            if b_ is False:
                return a
        return {"k": "Binary", "op": op, "l": a, "r": b_, "ty": "bool", "sp": m.get("sp")}
    if k == "Binary" and m["op"] in ("&&", "||"):
        op = m["op"]
        if neg:
            op = "||" if op == "&&" else "&&"
        return mk(op, simplify_bool(m["l"], neg, res, _depth), simplify_bool(m["r"], neg, res, _depth))
    if k == "If" and "e" in m:
        # (c && A) || (!c && B), negated: (c && !A) || (!c && !B)
        c_t, c_f = simplify_bool(m["c"], False, res, _depth), simplify_bool(m["c"], True, res, _depth)
        a_, b_ = simplify_bool(m["t"], neg, res, _depth), simplify_bool(m["e"], neg, res, _depth)
        if a_ is True:
            return mk("||", c_t, b_)          # c || (!c && Y)  ==  c || Y
        if b_ is True:
            return mk("||", c_f, a_)          # (c && X) || !c  ==  !c || X
        return mk("||", mk("&&", c_t, a_), mk("&&", c_f, b_))
    if k == "Binary" and m["op"] in _NEG:
        if not neg:
            return m
        out = dict(m)
        out["op"] = _NEG[m["op"]]
        return out
    if not neg:
        return m
    return {"k": "Unary", "op": "!", "e": m, "ty": "bool", "sp": m.get("sp")}


def control_facts(tree, node, stop=None, res=None):
    """conditions under which `node` is reached, each as it was when evaluated: the enclosing ifs (all_conditions) and the
    negations of earlier guard clauses `if c { return / break / continue / panic }` of the enclosing blocks. For rules that
    ask whether a required guard controls the node (a presence check); whether the guard still holds at the node is a
    different question (early_facts filters on intervening writes)."""
    return all_conditions(tree, node, stop, res) + [f for (f, _line) in _early_facts_raw(tree, node, stop, res)]


def has_cmp(items, lhs, ops, rhs):
    for it in items:
        if it[0] == "cmp" and it[1] == lhs and it[2] in ops and it[3] == rhs:
            return it
    return None


def _diverges(n):
    """the expression never completes normally (ends in return/break/continue/panic)"""
    n = strip(n)
    k = n["k"]
    if k in ("Ret", "Break", "Continue"):
        return True
    if k == "Block":
        last = n.get("expr")
        if last is None and n["stmts"]:
            last = n["stmts"][-1]
        return last is not None and _diverges(last)
    if k == "Call":
        c = n.get("callee") or ""
        return c.startswith(("core::panicking::", "std::rt::panic", "std::rt::begin_panic", "core::panicking::assert_failed")) or n.get("ty") == "!"
    if k == "If":
        return "e" in n and _diverges(n["t"]) and _diverges(n["e"])
    if k == "Match":
        return all(_diverges(a["body"]) for a in n["arms"]) and bool(n["arms"])
    return n.get("ty") == "!"


def _mutated_between(tree, lo_line, hi_line):
    """names (locals, `self.field`) written by an assignment or a &mut method call on lines in (lo_line, hi_line)"""
    names = set()
    for n in tree.nodes:
        sp = n.get("sp")
        if not sp or not (lo_line < sp[1] <= hi_line):
            continue
        tgt = None
        if n["k"] in ("Assign", "AssignOp"):
            tgt = n["l"]
        elif n["k"] == "MethodCall" and n.get("recv_ty", "").startswith("&mut "):
            tgt = n["recv"]
        elif n["k"] == "AddrOf" and n.get("mut"):
            tgt = n["e"]
        if tgt is not None:
            s_ = nf(tgt, True)
            m = __import__("re").match(r"^(self\.\w+|\w+)", s_)
            if m:
                names.add(m.group(1))
    return names


def early_facts(tree, node, stop=None, res=None):
    """facts established by earlier `if c { diverge }` statements (early returns, asserts) in the enclosing
    blocks of `node`: the negation of c holds afterwards — unless something the fact mentions is written in between"""
    raw = _early_facts_raw(tree, node, stop, res)
    out = []
    hi = node.get("sp", [None, 10 ** 9])[1]
    for (fact, line) in raw:
        muts = _mutated_between(tree, line, hi - 1)
        text = " ".join(str(x) for x in fact)
        if any(__import__("re").search(r"(?<![\w.])%s(?![\w])" % __import__("re").escape(mn), text) for mn in muts):
            continue
        out.append(fact)
    return out


def _early_facts_raw(tree, node, stop=None, res=None):
    out = []
    child = node
    for a in tree.ancestors(node):
        if stop is not None and a is stop:
            break
        if a["k"] == "Block":
            for st in a["stmts"]:
                if st is child:
                    break
                s = st
                # assert! expands to a block/if; look one level into expansion blocks
                cands = [s]
                if s["k"] == "Block":
                    cands = list(s["stmts"]) + ([s["expr"]] if "expr" in s else [])
                for c in cands:
                    if c["k"] == "If" and "e" not in c and _diverges(c["t"]):
                        out.extend((f_, c["sp"][6]) for f_ in atoms(c["c"], False, res=res))
                    elif c["k"] == "Match" and c.get("src") == "Normal" and hirq.expn(c)[1] in ("macro:assert_eq", "macro:assert_ne"):
                        # assert_eq!(a, b): match (&a, &b) { (l, r) => if !(*l == *r) { panic } }
                        tup = strip(c["e"])
                        if tup["k"] == "Tup" and len(tup["es"]) == 2:
                            a_, b_ = nf(tup["es"][0], True), nf(tup["es"][1], True)
                            if b_ < a_:
                                a_, b_ = b_, a_
                            out.append((("cmp", a_, "==" if hirq.expn(c)[1] == "macro:assert_eq" else "!=", b_), c["sp"][6]))
        child = a
    return out
