"""Normal forms of HIR expressions and conditions (for comparing constructs with each other)."""
from . import hirq

TRANSPARENT_CALLS = {"clone", "to_owned", "borrow", "as_ref", "deref", "into", "copied", "cloned"}


def strip(n):
    """remove wrappers that do not change the value: blocks with only a tail, & and *, transparent calls"""
    while True:
        k = n["k"]
        if k == "Block" and "expr" in n and all(hirq.in_log_macro(s) for s in n["stmts"]):
            n = n["expr"]
        elif k == "AddrOf":
            n = n["e"]
        elif k == "Unary" and n["op"] == "*":
            n = n["e"]
        elif k == "MethodCall" and n["name"] in TRANSPARENT_CALLS and not n["args"]:
            n = n["recv"]
        else:
            return n


def strip_casts(n):
    while True:
        n = strip(n)
        if n["k"] == "Cast":
            n = n["e"]
        else:
            return n


class Resolver:
    """maps immutable, singly-defined `let` locals of one function to their initialisers, so that normal forms do not
    depend on the names of such locals"""

    def __init__(self, fn):
        self.defs = {}
        for x in hirq.walk(fn["hir"]):
            if x["k"] == "Let" and "init" in x and x["pat"]["k"] == "Bind" and "Mut" not in x["pat"].get("mode", "") and "sub" not in x["pat"]:
                self.defs[x["pat"]["id"]] = x["init"]

    def lookup(self, lid):
        return self.defs.get(lid)


class AlphaResolver(Resolver):
    """a Resolver that also renames every remaining local (pattern-bound, mutable, parameters) to v1, v2, ... in order of
    first binding, for comparing two functions up to the names of their locals"""

    def __init__(self, fn):
        Resolver.__init__(self, fn)
        self.alpha = {}
        for p_ in fn.get("params", []):
            self._pat(p_["pat"])
        for x in hirq.walk(fn["hir"]):
            for key in ("pat",):
                if isinstance(x.get(key), dict):
                    self._pat(x[key])
            if x["k"] == "Match":
                for a in x["arms"]:
                    self._pat(a["pat"])
            if x["k"] == "Closure":
                for p_ in x["params"]:
                    self._pat(p_)

    def _pat(self, p_):
        k = p_["k"]
        if k == "Bind":
            if p_["id"] not in self.alpha and p_["name"] != "self":
                self.alpha[p_["id"]] = "v%d" % (len(self.alpha) + 1)
            if "sub" in p_:
                self._pat(p_["sub"])
        elif k in ("Tuple", "TupleStruct", "Or"):
            for q in p_["subs"]:
                self._pat(q)
        elif k == "Struct":
            for f in p_["fields"]:
                self._pat(f["pat"])
        elif k in ("Ref", "Deref"):
            self._pat(p_["sub"])

    def pat(self, p_):
        k = p_["k"]
        if k == "Bind":
            return self.alpha.get(p_["id"], p_["name"])
        if k == "Wild":
            return "_"
        if k == "Tuple":
            return "(" + ", ".join(self.pat(x) for x in p_["subs"]) + ")"
        if k == "TupleStruct":
            return hirq.respath(p_["res"]).split("::")[-1] + "(" + ", ".join(self.pat(x) for x in p_["subs"]) + ")"
        if k == "Ref":
            return "&" + self.pat(p_["sub"])
        if k == "Struct":
            return hirq.respath(p_["res"]).split("::")[-1] + "{" + ", ".join(self.pat(f["pat"]) for f in p_["fields"]) + "}"
        return hirq.show_pat(p_)


def nf(n, casts=False, alias=None, res=None, _depth=0):
    """canonical string of an expression; locals by name; refs/derefs/clones dropped.
    casts=True also drops `as` casts. alias: dict field name -> canonical field name.
    res: a Resolver; immutable single-definition locals are replaced by their definition"""
    n = strip_casts(n) if casts else strip(n)
    k = n["k"]
    if res is not None and k == "Path" and "local" in n["res"] and _depth < 8:
        d = res.lookup(n["res"]["local"])
        if d is not None:
            return nf(d, casts, alias, res, _depth + 1)
    r = lambda x: nf(x, casts, alias, res, _depth)
    if k == "Lit":
        v = n["v"]
        if n.get("lk") == "float":
            try:
                return repr(float(v))
            except ValueError:
                return v
        return v
    if k == "Path":
        res_ = n["res"]
        if "local" in res_:
            if res is not None and getattr(res, "alpha", None) and res_["local"] in res.alpha:
                return res.alpha[res_["local"]]
            return res_["name"]
        return res_.get("path", "?")
    if k == "Field":
        name = n["name"]
        if alias and name in alias:
            name = alias[name]
        return r(n["base"]) + "." + name
    if k == "Index":
        return r(n["base"]) + "[" + r(n["idx"]) + "]"
    if k == "Unary":
        return n["op"] + r(n["e"])
    if k == "Binary":
        a, b = r(n["l"]), r(n["r"])
        op = n["op"]
        if op in ("+", "*", "==", "!=", "&&", "||", "^", "&", "|") and b < a:
            a, b = b, a
        if op == ">":
            op, a, b = "<", b, a
        elif op == ">=":
            op, a, b = "<=", b, a
        return "(" + a + " " + op + " " + b + ")"
    if k == "Cast":
        return "(" + r(n["e"]) + " as " + n["ty"] + ")"
    if k == "Call":
        f = n.get("callee") or r(n["f"])
        return f + "(" + ", ".join(r(a) for a in n["args"]) + ")"
    if k == "MethodCall":
        return r(n["recv"]) + "." + n["name"] + "(" + ", ".join(r(a) for a in n["args"]) + ")"
    if k == "Tup":
        return "(" + ", ".join(r(a) for a in n["es"]) + ")"
    if k == "Struct":
        return hirq.respath(n["res"]) + "{" + ", ".join(f["name"] + ":" + r(f["e"]) for f in n["fields"]) + "}"
    if k == "If":
        return "if " + r(n["c"]) + " {" + r(n["t"]) + "}" + (" else {" + r(n["e"]) + "}" if "e" in n else "")
    sp_ = res.pat if (res is not None and hasattr(res, "pat")) else hirq.show_pat
    if k == "Closure":
        return "|" + ",".join(sp_(p) for p in n["params"]) + "| " + r(n["body"])
    if k == "Block":
        return "{" + "; ".join(r(s) for s in n["stmts"] if not hirq.in_log_macro(s)) + ("; " + r(n["expr"]) if "expr" in n else "") + "}"
    if k == "Let":
        return "let " + sp_(n["pat"]) + (" = " + r(n["init"]) if "init" in n else "")
    if k == "Assign":
        return r(n["l"]) + " = " + r(n["r"])
    if k == "AssignOp":
        return r(n["l"]) + " " + n["op"] + " " + r(n["r"])
    if k == "Ret":
        return "return " + (r(n["e"]) if "e" in n else "")
    if k == "Break":
        return "break"
    if k == "Continue":
        return "continue"
    if k == "Array":
        return "[" + ", ".join(r(a) for a in n["es"]) + "]"
    if k == "Repeat":
        return "[" + r(n["e"]) + "; _]"
    if k == "Match":
        return "match " + r(n["e"]) + " {" + ", ".join(sp_(a["pat"]) + " => " + r(a["body"]) for a in n["arms"]) + "}"
    if k == "Loop":
        return "loop[" + n["src"] + "] " + r(n["body"])
    if k == "LetExpr":
        return "let " + sp_(n["pat"]) + " = " + r(n["init"])
    return "<" + k + ">"


# ------------------------------------------------------------------------------- conditions

FLIP = {"<": ">=", "<=": ">", ">": "<=", ">=": "<", "==": "!=", "!=": "=="}


def atoms(cond, polarity=True, casts=True, res=None):
    """facts known to hold when `cond` evaluates to `polarity`.
    returns a list of items, each either ('cmp', lhs_nf, op, rhs_nf) with op in < <= == != (others
    normalised by swapping), ('truth', nf, bool) for opaque boolean expressions, or
    ('or', [alt1_items, alt2_items...]) for disjunctions."""
    n = strip(cond)
    k = n["k"]
    if res is not None and k == "Path" and "local" in n["res"]:
        d = res.lookup(n["res"]["local"])
        if d is not None:
            return atoms(d, polarity, casts, res)
    if k == "Unary" and n["op"] == "!":
        return atoms(n["e"], not polarity, casts, res)
    if k == "Binary":
        op = n["op"]
        if op == "&&":
            if polarity:
                return atoms(n["l"], True, casts, res) + atoms(n["r"], True, casts, res)
            return [("or", [atoms(n["l"], False, casts, res), atoms(n["r"], False, casts, res)])]
        if op == "||":
            if polarity:
                return [("or", [atoms(n["l"], True, casts, res), atoms(n["r"], True, casts, res)])]
            return atoms(n["l"], False, casts, res) + atoms(n["r"], False, casts, res)
        if op in FLIP:
            if not polarity:
                op = FLIP[op]
            a, b = nf(n["l"], casts, res=res), nf(n["r"], casts, res=res)
            if op == ">":
                op, a, b = "<", b, a
            elif op == ">=":
                op, a, b = "<=", b, a
            elif op in ("==", "!=") and b < a:
                a, b = b, a
            return [("cmp", a, op, b)]
    return [("truth", nf(n, casts, res=res), polarity)]


def all_conditions(tree, node, stop=None, res=None):
    """facts holding at `node` from every enclosing If (innermost first)"""
    out = []
    for (c, pol) in tree.conditions(node, stop):
        if isinstance(pol, bool):
            out.extend(atoms(c, pol, res=res))
    return out


def has_cmp(items, lhs, ops, rhs):
    for it in items:
        if it[0] == "cmp" and it[1] == lhs and it[2] in ops and it[3] == rhs:
            return it
    return None


def _diverges(n):
    """the expression never completes normally (ends in return/break/continue/panic)"""
    n = strip(n)
    k = n["k"]
    if k in ("Ret", "Break", "Continue"):
        return True
    if k == "Block":
        last = n.get("expr")
        if last is None and n["stmts"]:
            last = n["stmts"][-1]
        return last is not None and _diverges(last)
    if k == "Call":
        c = n.get("callee") or ""
        return c.startswith(("core::panicking::", "std::rt::panic", "std::rt::begin_panic", "core::panicking::assert_failed")) or n.get("ty") == "!"
    if k == "If":
        return "e" in n and _diverges(n["t"]) and _diverges(n["e"])
    if k == "Match":
        return all(_diverges(a["body"]) for a in n["arms"]) and bool(n["arms"])
    return n.get("ty") == "!"


def _mutated_between(tree, lo_line, hi_line):
    """names (locals, `self.field`) written by an assignment or a &mut method call on lines in (lo_line, hi_line)"""
    names = set()
    for n in tree.nodes:
        sp = n.get("sp")
        if not sp or not (lo_line < sp[1] <= hi_line):
            continue
        tgt = None
        if n["k"] in ("Assign", "AssignOp"):
            tgt = n["l"]
        elif n["k"] == "MethodCall" and n.get("recv_ty", "").startswith("&mut "):
            tgt = n["recv"]
        elif n["k"] == "AddrOf" and n.get("mut"):
            tgt = n["e"]
        if tgt is not None:
            s_ = nf(tgt, True)
            m = __import__("re").match(r"^(self\.\w+|\w+)", s_)
            if m:
                names.add(m.group(1))
    return names


def early_facts(tree, node, stop=None):
    """facts established by earlier `if c { diverge }` statements (early returns, asserts) in the enclosing
    blocks of `node`: the negation of c holds afterwards — unless something the fact mentions is written in between"""
    raw = _early_facts_raw(tree, node, stop)
    out = []
    hi = node.get("sp", [None, 10 ** 9])[1]
    for (fact, line) in raw:
        muts = _mutated_between(tree, line, hi - 1)
        text = " ".join(str(x) for x in fact)
        if any(__import__("re").search(r"(?<![\w.])%s(?![\w])" % __import__("re").escape(mn), text) for mn in muts):
            continue
        out.append(fact)
    return out


def _early_facts_raw(tree, node, stop=None):
    out = []
    child = node
    for a in tree.ancestors(node):
        if stop is not None and a is stop:
            break
        if a["k"] == "Block":
            for st in a["stmts"]:
                if st is child:
                    break
                s = st
                # assert! expands to a block/if; look one level into expansion blocks
                cands = [s]
                if s["k"] == "Block":
                    cands = list(s["stmts"]) + ([s["expr"]] if "expr" in s else [])
                for c in cands:
                    if c["k"] == "If" and "e" not in c and _diverges(c["t"]):
                        out.extend((f_, c["sp"][6]) for f_ in atoms(c["c"], False))
                    elif c["k"] == "Match" and c.get("src") == "Normal" and hirq.expn(c)[1] in ("macro:assert_eq", "macro:assert_ne"):
                        # assert_eq!(a, b): match (&a, &b) { (l, r) => if !(*l == *r) { panic } }
                        tup = strip(c["e"])
                        if tup["k"] == "Tup" and len(tup["es"]) == 2:
                            a_, b_ = nf(tup["es"][0], True), nf(tup["es"][1], True)
                            if b_ < a_:
                                a_, b_ = b_, a_
                            out.append((("cmp", a_, "==" if hirq.expn(c)[1] == "macro:assert_eq" else "!=", b_), c["sp"][6]))
        child = a
    return out
