"""thorough tier extras: the second build configuration is handled by pmhcheck; here mutation smoke, benign edits
and (C12) the compile-fail witness are added per property (see DESIGN.md §2.3)."""


def run(ctx, prop, mod, src):
    from . import mutants
    if hasattr(mod, "thorough"):
        mod.thorough(ctx, src)
    mutants.run(ctx, prop, src)
    if prop in ("C12", "C13"):
        from . import reinfer, engine
        facts = engine.load_facts("default", src_root=src)
        reinfer.run(ctx, facts)
