"""thorough tier extras: second build configuration is handled by pmhcheck; here fixtures, mutation smoke and
candidate re-inference are added per property (see DESIGN.md §2.3)."""


def run(ctx, prop, mod, src):
    from . import mutants
    mutants.run(ctx, prop)
