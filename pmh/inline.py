"""Inlining of newly extracted private helpers into their callers (HIR level).

A routine refactoring moves a few statements of an analysed function into a private helper. The structural rules are stated
over the bodies of the functions named in their tables, so they would lose sight of those statements. Before any rule runs,
calls to *new* private helpers are therefore replaced by the helper's body:

* new      = the function is not in the inventory of function ids frozen from the tree the rules were written for
             (`pmh/inventory.json`); functions of that tree are never inlined — the rules know them by name;
* private  = not `pub`, not a trait method; in-crate with a body; no `return`; not recursive (depth <= 3);
* position = the call is a statement, the right-hand side of an assignment or `let`, or the tail of a block, and the receiver
             (if any) is `self` itself: the helper's statements are spliced into the caller's block in evaluation order
             (parameter `let`s first), its tail expression takes the place of the call.

Locals of the helper get fresh ids and a `__<helper>` suffix, so nothing is captured; spans are moved to the call site (line
order in the caller stays meaningful) and the origin is kept in `inl`. A helper all of whose calls were inlined is *absorbed*:
its effects are analysed in its callers, and the who-may-write rules do not count it as a foreign writer. MIR facts are not
rewritten (the MIR rules resolve callees themselves)."""
import copy
import json
import os

from . import hirq

INVENTORY = os.path.join(os.path.dirname(os.path.abspath(__file__)), "inventory.json")
MAX_DEPTH = 3


def load_inventory():
    try:
        return set(json.load(open(INVENTORY))["fns"])
    except (OSError, ValueError, KeyError):
        return None


def _strip_ref(e):
    while e["k"] == "AddrOf" or (e["k"] == "Unary" and e.get("op") == "*"):
        e = e["e"]
    return e


def _is_self(e):
    e = _strip_ref(e)
    return e["k"] == "Path" and "local" in e.get("res", {}) and e["res"].get("name") == "self"


def _max_id(n):
    m = 0
    stack = [n]
    while stack:
        x = stack.pop()
        if isinstance(x, dict):
            for k, v in x.items():
                if k in ("id", "target", "local") and isinstance(v, int) and v > m:
                    m = v
                elif isinstance(v, (dict, list)):
                    stack.append(v)
        elif isinstance(x, list):
            stack.extend(x)
    return m


def _rename(n, off, suffix, callsp, origin, visible=None):
    """fresh ids, spans moved to the call site (in place, on a deep copy); a local of the helper gets the suffix only if its
    name is visible at the call site (visible=None: always)"""
    stack = [n]
    while stack:
        x = stack.pop()
        if isinstance(x, dict):
            if "k" in x:
                x["inl"] = origin
            for k in ("id", "target"):
                if isinstance(x.get(k), int):
                    x[k] += off
            if x.get("k") == "Bind" and x.get("name") != "self" and (visible is None or x["name"] in visible):
                x["name"] = x["name"] + suffix
            r = x.get("res")
            if isinstance(r, dict) and isinstance(r.get("local"), int):
                r["local"] += off
                if r.get("name") != "self" and (visible is None or r.get("name") in visible):
                    r["name"] = r["name"] + suffix
            sp = x.get("sp")
            if isinstance(sp, list) and len(sp) >= 7:
                x["sp_orig"] = list(sp)
                x["sp"] = [callsp[0], callsp[1], callsp[2], sp[3], sp[4], sp[5], callsp[6]]
            for k, v in x.items():
                if k in ("sp", "sp_orig", "res"):
                    continue
                if isinstance(v, (dict, list)):
                    stack.append(v)
        elif isinstance(x, list):
            stack.extend(x)


def _ends_in_ret(blk):
    """(statements before the return, returned expression or None) if the block is `{ ..; return [e]; }`, else None"""
    if blk["k"] == "Ret":
        return [], blk.get("e")
    if blk["k"] != "Block":
        return None
    last = blk.get("expr")
    stmts = list(blk["stmts"])
    if last is None and stmts:
        last = stmts.pop()
    if last is None or last["k"] != "Ret":
        return None
    return stmts, last.get("e")


def fold_guard_returns(body):
    """`if c { ..; return v; } rest` at the top level of a function body is `if c { ..; v } else { rest }`. Returns the body
    with every such guard clause folded, or None if a `return` remains anywhere else (or the body's tail is itself a return
    of a different shape)."""
    if not any(x["k"] == "Ret" for x in hirq.walk(body)):
        return body
    stmts = list(body["stmts"])
    tail = body.get("expr")
    # a trailing `return e;` statement is the tail expression
    if tail is None and stmts and stmts[-1]["k"] == "Ret":
        r = stmts.pop()
        tail = r.get("e")
    i = len(stmts) - 1
    while i >= 0:
        st = stmts[i]
        if st["k"] == "If" and "e" not in st:
            er = _ends_in_ret(st["t"])
            if er is not None:
                then_stmts, val = er
                if any(y["k"] == "Ret" for s_ in then_stmts for y in hirq.walk(s_)) or (val is not None and any(y["k"] == "Ret" for y in hirq.walk(val))):
                    return None
                rest = {"k": "Block", "stmts": stmts[i + 1:], "sp": list(st["sp"])}
                if tail is not None:
                    rest["expr"] = tail
                tb = {"k": "Block", "stmts": then_stmts, "sp": list(st["t"].get("sp", st["sp"]))}
                if val is not None:
                    tb["expr"] = val
                new_if = dict(st)
                if not then_stmts and val is None:
                    # `if c { return; } rest` is `if !c { rest }`
                    new_if["c"] = {"k": "Unary", "op": "!", "e": st["c"], "ty": "bool", "sp": list(st["c"].get("sp", st["sp"]))}
                    new_if["t"] = rest
                    new_if.pop("e", None)
                else:
                    new_if["t"] = tb
                    new_if["e"] = rest
                stmts = stmts[:i]
                tail = new_if
        i -= 1
    out = dict(body)
    out["stmts"] = stmts
    if tail is not None:
        out["expr"] = tail
    elif "expr" in out:
        del out["expr"]
    if any(x["k"] == "Ret" for x in hirq.walk(out)):
        return None
    return out


class Inliner:
    def __init__(self, facts):
        self.facts = facts
        self.inv = load_inventory()
        self.inlined = {}       # callee id -> number of call sites inlined
        self.kept = {}          # callee id -> number of call sites left as calls
        self.memo = {}

    # ---- eligibility
    def candidate(self, callee):
        f = self.facts.fns.get(callee or "")
        if f is None or "hir_raw" not in f or self.inv is None or callee in self.inv:
            return None
        if f.get("vis") == "Public" or f.get("kind") not in ("Fn", "AssocFn") or callee.startswith("<") or f.get("unsafe"):
            return None
        body = f["hir_raw"]
        if body["k"] != "Block":
            return None
        for x in hirq.walk(body):
            if x["k"] == "Match" and str(x.get("src", "")).startswith("TryDesugar"):
                return None
            if x["k"] == "Closure" and any(y["k"] == "Ret" for y in hirq.walk(x)):
                return None
        return f

    def body_of(self, fid, stack):
        """the helper's body with its own new helpers already inlined"""
        if fid in self.memo:
            return self.memo[fid]
        f = self.facts.fns[fid]
        root = copy.deepcopy(f["hir_raw"])
        root = fold_guard_returns(root)
        if root is not None and len(stack) <= MAX_DEPTH:
            self.rewrite(root, f, stack)
        self.memo[fid] = root
        return root

    # ---- rewriting
    def _call_info(self, e):
        """(callee id, [actual args including receiver]) for a call expression, else None"""
        if e["k"] == "MethodCall":
            return e.get("callee"), [e["recv"]] + list(e["args"])
        if e["k"] == "Call":
            return e.get("callee"), list(e["args"])
        return None

    def expand(self, call, counter, stack, visible=None):
        """(statements, tail or None) replacing `call`, or None if it is not inlined"""
        info = self._call_info(call)
        if info is None:
            return None
        callee, actual = info
        f = self.candidate(callee)
        if f is None:
            return None
        if callee in stack or len(stack) > MAX_DEPTH or len(actual) != len(f["params"]):
            self.kept[callee] = self.kept.get(callee, 0) + 1
            return None
        params = f["params"]
        if params and params[0]["pat"].get("k") == "Bind" and params[0]["pat"].get("name") == "self" and not _is_self(actual[0]):
            self.kept[callee] = self.kept.get(callee, 0) + 1
            return None
        b0 = self.body_of(callee, stack + (callee,))
        if b0 is None:
            # a `return` that is not a top-level guard clause: left as a call
            self.kept[callee] = self.kept.get(callee, 0) + 1
            return None
        body = copy.deepcopy(b0)
        pats = copy.deepcopy([p["pat"] for p in params])
        off = counter[0]
        span = max(_max_id(body), _max_id(pats)) + 1
        counter[0] += span
        short = callee.split("::")[-1]
        suffix = "__" + short
        origin = {"fn": callee, "line": f["sp"][1] if isinstance(f.get("sp"), list) else None}
        _rename(body, off, suffix, call["sp"], origin, visible)
        _rename(pats, off, suffix, call["sp"], origin, visible)
        stmts = []
        for p, a in zip(pats, actual):
            if p.get("k") == "Bind" and p.get("name") == "self":
                continue
            stmts.append({"k": "Let", "pat": p, "init": a, "sp": list(call["sp"]), "inl": origin})
        stmts.extend(body["stmts"])
        self.inlined[callee] = self.inlined.get(callee, 0) + 1
        return stmts, body.get("expr")

    def rewrite(self, root, fn, stack):
        counter = [max(_max_id(root), _max_id(fn.get("params", []))) + 1]
        env = scope_env(root, fn.get("params", []))
        blocks = [x for x in hirq.walk(root) if x["k"] == "Block"]
        for b in blocks:
            vis = set(env.get(id(b), ()))
            new = []
            for st in b["stmts"]:
                rep = self._stmt(st, counter, stack, vis)
                if rep is None:
                    new.append(st)
                    rep = [st]
                else:
                    new.extend(rep)
                for r_ in rep:
                    if r_.get("k") == "Let":
                        vis |= {q["name"] for q in _binds(r_["pat"], [])}
            b["stmts"] = new
            if "expr" in b and b["expr"]["k"] in ("Call", "MethodCall"):
                r = self.expand(b["expr"], counter, stack, vis)
                if r is not None:
                    stmts, tail = r
                    b["stmts"].extend(stmts)
                    if tail is not None:
                        b["expr"] = tail
                    else:
                        del b["expr"]
        # calls left in other positions
        for x in hirq.walk(root):
            if x["k"] in ("Call", "MethodCall"):
                c = x.get("callee")
                if c and self.candidate(c) is not None:
                    self.kept[c] = self.kept.get(c, 0) + 1

    def _stmt(self, st, counter, stack, vis=None):
        k = st["k"]
        if k in ("Call", "MethodCall"):
            r = self.expand(st, counter, stack, vis)
            if r is None:
                return None
            stmts, tail = r
            return stmts + ([tail] if tail is not None else [])
        if k in ("Assign", "AssignOp") and st["r"]["k"] in ("Call", "MethodCall"):
            r = self.expand(st["r"], counter, stack, vis)
            if r is None or r[1] is None:
                return None
            st["r"] = r[1]
            return r[0] + [st]
        # the call is the first thing the statement evaluates: scrutinee of a match, condition of a (source-level) if
        host = None
        if k == "Let" and "init" in st and "else" not in st and st["init"]["k"] == "Match" and st["init"].get("src") == "Normal":
            host = (st["init"], "e")
        elif k == "Match" and st.get("src") == "Normal":
            host = (st, "e")
        elif k in ("Assign",) and st["r"]["k"] == "Match" and st["r"].get("src") == "Normal":
            host = (st["r"], "e")
        elif k == "If" and not hirq.from_expansion(st):
            host = (st, "c")
            if st["c"]["k"] == "Unary" and st["c"].get("op") == "!":
                host = (st["c"], "e")
        if host is not None and host[0][host[1]]["k"] in ("Call", "MethodCall"):
            r = self.expand(host[0][host[1]], counter, stack, vis)
            if r is not None and r[1] is not None:
                host[0][host[1]] = r[1]
                return r[0] + [st]
            return None
        if k == "Let" and "init" in st and st["init"]["k"] in ("Call", "MethodCall") and "else" not in st:
            r = self.expand(st["init"], counter, stack, vis)
            if r is None or r[1] is None:
                return None
            st["init"] = r[1]
            return r[0] + [st]
        return None


def _binds(p, out):
    k = p.get("k")
    if k == "Bind":
        out.append(p)
        if "sub" in p:
            _binds(p["sub"], out)
    elif k in ("Tuple", "TupleStruct", "Or", "Slice"):
        for q in p.get("subs", []):
            _binds(q, out)
    elif k == "Struct":
        for f in p.get("fields", []):
            _binds(f["pat"], out)
    elif k in ("Ref", "Deref", "Box"):
        if "sub" in p:
            _binds(p["sub"], out)
    return out


def scope_env(root, params):
    """names of the locals visible on entry to each block: {id(block): frozenset(names)}"""
    out = {}

    def names(pat):
        return {b["name"] for b in _binds(pat, [])}

    def visit(n, env):
        k = n.get("k")
        if k == "Block":
            out[id(n)] = frozenset(env)
            e2 = set(env)
            for st in n["stmts"]:
                if st.get("k") == "Let":
                    if "init" in st:
                        visit(st["init"], e2)
                    e2 |= names(st["pat"])
                else:
                    visit(st, e2)
            if "expr" in n:
                visit(n["expr"], e2)
        elif k == "Match":
            visit(n["e"], env)
            for a in n["arms"]:
                e2 = set(env) | names(a["pat"])
                if isinstance(a.get("guard"), dict):
                    visit(a["guard"], e2)
                visit(a["body"], e2)
        elif k == "Closure":
            e2 = set(env)
            for p_ in n.get("params", []):
                e2 |= names(p_)
            visit(n["body"], e2)
        else:
            for c in hirq.children(n):
                visit(c, env)
    env0 = set()
    for p_ in params:
        env0 |= names(p_["pat"])
    visit(root, env0)
    return out


def disambiguate(fn, root=None):
    """Shadowing: a binding introduced while another binding of the same name is in scope gets the name `<name>__s<k>` (and so
    do its uses). Normal forms print locals by name; without this `let mut k = ..` inside a block guarded on an outer `k` would
    be indistinguishable from it. Bindings in disjoint scopes keep their names. Returns the number of renamed bindings."""
    root = root if root is not None else fn["hir_raw"]
    rename = {}
    count = {}

    def bind(pat, env):
        for b in _binds(pat, []):
            nm = b["name"]
            sp = b.get("sp")
            if nm == "self" or (sp and sp[3]):
                env[nm] = b["id"]
                continue
            if nm in env and env[nm] != b["id"]:
                count[nm] = count.get(nm, 1) + 1
                rename[b["id"]] = "%s__s%d" % (nm, count[nm])
            env[nm] = b["id"]

    def visit(n, env):
        k = n.get("k")
        if k == "Block":
            e2 = dict(env)
            for st in n["stmts"]:
                if st.get("k") == "Let":
                    if "init" in st:
                        visit(st["init"], e2)
                    if isinstance(st.get("else"), dict):
                        visit(st["else"], e2)
                    bind(st["pat"], e2)
                else:
                    visit(st, e2)
            if "expr" in n:
                visit(n["expr"], e2)
        elif k == "Match":
            visit(n["e"], env)
            for a in n["arms"]:
                e2 = dict(env)
                bind(a["pat"], e2)
                if isinstance(a.get("guard"), dict):
                    visit(a["guard"], e2)
                visit(a["body"], e2)
        elif k == "Closure":
            e2 = dict(env)
            for p_ in n.get("params", []):
                bind(p_, e2)
            visit(n["body"], e2)
        elif k == "Let":
            if "init" in n:
                visit(n["init"], env)
            bind(n["pat"], env)
        else:
            for c in hirq.children(n):
                visit(c, env)

    env0 = {}
    for p_ in fn.get("params", []):
        for b in _binds(p_["pat"], []):
            env0[b["name"]] = b["id"]
    visit(root, env0)
    if not rename:
        return 0
    stack = [root]
    while stack:
        x = stack.pop()
        if isinstance(x, dict):
            if x.get("k") == "Bind" and x.get("id") in rename:
                x["name"] = rename[x["id"]]
            r = x.get("res")
            if isinstance(r, dict) and r.get("local") in rename:
                r["name"] = rename[r["local"]]
            for kk, v in x.items():
                if kk in ("sp", "res"):
                    continue
                if isinstance(v, (dict, list)):
                    stack.append(v)
        elif isinstance(x, list):
            stack.extend(x)
    return len(rename)


def split_tuple_lets(root):
    """`let (a, b, c) = (e1, e2, e3);` is `let a = e1; let b = e2; let c = e3;` (same evaluation order): the analyses are
    field-sensitive on tuple components only through destructuring of a call result, and an inlined helper that returns a
    tuple literal produces exactly this form. Returns the number of lets split."""
    n = 0
    for b in [x for x in hirq.walk(root) if x["k"] == "Block"]:
        new = []
        for st in b["stmts"]:
            if st["k"] == "Let" and st["pat"].get("k") == "Tuple" and "init" in st and "else" not in st:
                ini = st["init"]
                while ini["k"] == "Block" and not ini["stmts"] and "expr" in ini:
                    ini = ini["expr"]
                subs = st["pat"].get("subs", [])
                if ini["k"] == "Tup" and len(ini.get("es", [])) == len(subs) and all(q.get("k") in ("Bind", "Wild") and "sub" not in q for q in subs):
                    for q, e in zip(subs, ini["es"]):
                        new.append({"k": "Let", "pat": q, "init": e, "sp": list(st["sp"])})
                    n += 1
                    continue
            new.append(st)
        b["stmts"] = new
    return n


def _pure(e):
    """no call that takes something by &mut, no assignment, no macro expansion: evaluating it twice is the same as once"""
    for x in hirq.walk(e):
        if x["k"] in ("Assign", "AssignOp", "Closure", "Loop", "Ret", "Break", "Continue"):
            return False
        if x["k"] == "MethodCall" and x.get("recv_ty", "").startswith("&mut "):
            return False
        if x["k"] == "AddrOf" and x.get("mut"):
            return False
        if x["k"] == "Call" and x.get("callee", "").split("::")[-1] not in ("Some", "Ok", "Err"):
            return False
    return True


def _bool_lit(p):
    if p.get("k") != "Lit":
        return None
    d = p.get("dbg", "")
    return True if "Bool(true)" in d else False if "Bool(false)" in d else None


def normalise_bool_match(root):
    """`match c { true => a, false => b }` is `if c { a } else { b }`"""
    n = 0
    for x in hirq.walk(root):
        if x["k"] == "Match" and x.get("src") == "Normal" and len(x.get("arms", [])) == 2 and not any(a.get("guard") for a in x["arms"]):
            vals = [_bool_lit(a["pat"]) for a in x["arms"]]
            wild = [a["pat"].get("k") == "Wild" for a in x["arms"]]
            if vals[0] is not None and (vals[1] == (not vals[0]) or wild[1]):
                t_arm = x["arms"][0] if vals[0] else x["arms"][1]
                f_arm = x["arms"][1] if vals[0] else x["arms"][0]
                cond, tb, fb = x["e"], t_arm["body"], f_arm["body"]
                keep = {k: x[k] for k in ("id", "ty", "sp") if k in x}
                x.clear()
                x.update(keep)
                x.update({"k": "If", "c": cond, "t": tb, "e": fb})
                n += 1
    return n


def distribute_tuple_if(root):
    """`let (a, b) = if c { (x1, y1) } else { (x2, y2) };` with a pure c is `let a = if c {x1} else {x2}; let b = if c {y1} else {y2};`"""
    n = 0

    def tup(e):
        while e["k"] == "Block" and not e["stmts"] and "expr" in e:
            e = e["expr"]
        return e if e["k"] == "Tup" else None
    for b in [x for x in hirq.walk(root) if x["k"] == "Block"]:
        new = []
        for st in b["stmts"]:
            if st["k"] == "Let" and st["pat"].get("k") == "Tuple" and "init" in st and "else" not in st:
                ini = st["init"]
                while ini["k"] == "Block" and not ini["stmts"] and "expr" in ini:
                    ini = ini["expr"]
                subs = st["pat"].get("subs", [])
                if ini["k"] == "If" and "e" in ini and _pure(ini["c"]) and all(q.get("k") in ("Bind", "Wild") and "sub" not in q for q in subs):
                    ta, tb_ = tup(ini["t"]), tup(ini["e"])
                    if ta is not None and tb_ is not None and len(ta["es"]) == len(subs) == len(tb_["es"]) and all(_pure(e) for e in ta["es"] + tb_["es"]):
                        for i, q in enumerate(subs):
                            new.append({"k": "Let", "pat": q, "sp": list(st["sp"]),
                                        "init": {"k": "If", "c": copy.deepcopy(ini["c"]), "t": ta["es"][i], "e": tb_["es"][i], "sp": list(ini["sp"]), "ty": q.get("ty", "")}})
                        n += 1
                        continue
            new.append(st)
        b["stmts"] = new
    return n


def prepare(facts):
    """rewrite fn["hir"] of every function in place (the extractor's tree stays in fn["hir_raw"])"""
    if getattr(facts, "inliner", None) is not None:
        return facts.inliner
    inl = Inliner(facts)
    facts.inliner = inl
    inl.renamed = 0
    for f in facts.fns.values():
        if "hir" in f:
            f["hir_raw"] = f["hir"]
            inl.renamed += disambiguate(f)
    if inl.inv is None:
        return inl
    for fid, f in facts.fns.items():
        if "hir_raw" not in f:
            continue
        pass
    for fid, f in facts.fns.items():
        if "hir_raw" not in f:
            continue
        # cheap pre-test: does the body call any candidate at all?
        if not any(x["k"] in ("Call", "MethodCall") and x.get("callee") and x["callee"] not in inl.inv and x["callee"] in facts.fns
                   for x in hirq.walk(f["hir_raw"])):
            continue
        root = copy.deepcopy(f["hir_raw"])
        inl.rewrite(root, f, (fid,))
        f["hir"] = root
        f["_inlined_here"] = True
    # source-level normalisations (pmh/normalise.py) on every function; a function nothing applies to keeps its tree
    from . import normalise
    inl.normalised = 0
    for fid, f in facts.fns.items():
        if "hir" not in f:
            continue
        root = f["hir"] if f.get("_inlined_here") else copy.deepcopy(f["hir"])
        k_ = normalise.normalise(root)
        if k_ or f.get("_inlined_here"):
            disambiguate(f, root)      # a later binding may shadow a local floated outwards or brought in by a helper
            f["hir"] = root
            inl.normalised += k_
    # a helper is absorbed when every call to it was inlined
    inl.absorbed = {c for c in inl.inlined if inl.kept.get(c, 0) == 0}
    return inl


def absorbed(facts, fid):
    inl = getattr(facts, "inliner", None)
    return inl is not None and fid in getattr(inl, "absorbed", ())
