"""Inlining of newly extracted private helpers into their callers (HIR level).

A routine refactoring moves a few statements of an analysed function into a private helper. The structural rules are stated
over the bodies of the functions named in their tables, so they would lose sight of those statements. Before any rule runs,
calls to *new* private helpers are therefore replaced by the helper's body:

* new      = the function is not in the inventory of function ids frozen from the tree the rules were written for
             (`pmh/inventory.json`); functions of that tree are never inlined — the rules know them by name;
* private  = not `pub`, not a trait method; in-crate with a body; no `return`; not recursive (depth <= 3);
* position = the call is a statement, the right-hand side of an assignment or `let`, or the tail of a block, and the receiver
             (if any) is `self` itself: the helper's statements are spliced into the caller's block in evaluation order
             (parameter `let`s first), its tail expression takes the place of the call.

Locals of the helper get fresh ids and a `__<helper>` suffix, so nothing is captured; spans are moved to the call site (line
order in the caller stays meaningful) and the origin is kept in `inl`. A helper all of whose calls were inlined is *absorbed*:
its effects are analysed in its callers, and the who-may-write rules do not count it as a foreign writer. MIR facts are not
rewritten (the MIR rules resolve callees themselves)."""
import copy
import json
import os

from . import hirq

INVENTORY = os.path.join(os.path.dirname(os.path.abspath(__file__)), "inventory.json")
MAX_DEPTH = 3


def load_inventory():
    try:
        return set(json.load(open(INVENTORY))["fns"])
    except (OSError, ValueError, KeyError):
        return None


def _strip_ref(e):
    while e["k"] == "AddrOf" or (e["k"] == "Unary" and e.get("op") == "*"):
        e = e["e"]
    return e


def _is_self(e):
    e = _strip_ref(e)
    return e["k"] == "Path" and "local" in e.get("res", {}) and e["res"].get("name") == "self"


def _max_id(n):
    m = 0
    stack = [n]
    while stack:
        x = stack.pop()
        if isinstance(x, dict):
            for k, v in x.items():
                if k in ("id", "target", "local") and isinstance(v, int) and v > m:
                    m = v
                elif isinstance(v, (dict, list)):
                    stack.append(v)
        elif isinstance(x, list):
            stack.extend(x)
    return m


def _rename(n, off, suffix, callsp, origin):
    """fresh ids, suffixed local names, spans moved to the call site (in place, on a deep copy)"""
    stack = [n]
    while stack:
        x = stack.pop()
        if isinstance(x, dict):
            if "k" in x:
                x["inl"] = origin
            for k in ("id", "target"):
                if isinstance(x.get(k), int):
                    x[k] += off
            if x.get("k") == "Bind" and x.get("name") != "self":
                x["name"] = x["name"] + suffix
            r = x.get("res")
            if isinstance(r, dict) and isinstance(r.get("local"), int):
                r["local"] += off
                if r.get("name") != "self":
                    r["name"] = r["name"] + suffix
            sp = x.get("sp")
            if isinstance(sp, list) and len(sp) >= 7:
                x["sp_orig"] = list(sp)
                x["sp"] = [callsp[0], callsp[1], callsp[2], sp[3], sp[4], sp[5], callsp[6]]
            for k, v in x.items():
                if k in ("sp", "sp_orig", "res"):
                    continue
                if isinstance(v, (dict, list)):
                    stack.append(v)
        elif isinstance(x, list):
            stack.extend(x)


class Inliner:
    def __init__(self, facts):
        self.facts = facts
        self.inv = load_inventory()
        self.inlined = {}       # callee id -> number of call sites inlined
        self.kept = {}          # callee id -> number of call sites left as calls
        self.memo = {}

    # ---- eligibility
    def candidate(self, callee):
        f = self.facts.fns.get(callee or "")
        if f is None or "hir_raw" not in f or self.inv is None or callee in self.inv:
            return None
        if f.get("vis") == "Public" or f.get("kind") not in ("Fn", "AssocFn") or callee.startswith("<") or f.get("unsafe"):
            return None
        body = f["hir_raw"]
        if body["k"] != "Block":
            return None
        for x in hirq.walk(body):
            if x["k"] == "Ret" or (x["k"] == "Match" and str(x.get("src", "")).startswith("TryDesugar")):
                return None
            if x["k"] == "Closure" and any(y["k"] == "Ret" for y in hirq.walk(x)):
                return None
        return f

    def body_of(self, fid, stack):
        """the helper's body with its own new helpers already inlined"""
        if fid in self.memo:
            return self.memo[fid]
        f = self.facts.fns[fid]
        root = copy.deepcopy(f["hir_raw"])
        if len(stack) <= MAX_DEPTH:
            self.rewrite(root, f, stack)
        self.memo[fid] = root
        return root

    # ---- rewriting
    def _call_info(self, e):
        """(callee id, [actual args including receiver]) for a call expression, else None"""
        if e["k"] == "MethodCall":
            return e.get("callee"), [e["recv"]] + list(e["args"])
        if e["k"] == "Call":
            return e.get("callee"), list(e["args"])
        return None

    def expand(self, call, counter, stack):
        """(statements, tail or None) replacing `call`, or None if it is not inlined"""
        info = self._call_info(call)
        if info is None:
            return None
        callee, actual = info
        f = self.candidate(callee)
        if f is None:
            return None
        if callee in stack or len(stack) > MAX_DEPTH or len(actual) != len(f["params"]):
            self.kept[callee] = self.kept.get(callee, 0) + 1
            return None
        params = f["params"]
        if params and params[0]["pat"].get("k") == "Bind" and params[0]["pat"].get("name") == "self" and not _is_self(actual[0]):
            self.kept[callee] = self.kept.get(callee, 0) + 1
            return None
        body = copy.deepcopy(self.body_of(callee, stack + (callee,)))
        pats = copy.deepcopy([p["pat"] for p in params])
        off = counter[0]
        span = max(_max_id(body), _max_id(pats)) + 1
        counter[0] += span
        short = callee.split("::")[-1]
        suffix = "__" + short
        origin = {"fn": callee, "line": f["sp"][1] if isinstance(f.get("sp"), list) else None}
        _rename(body, off, suffix, call["sp"], origin)
        _rename(pats, off, suffix, call["sp"], origin)
        stmts = []
        for p, a in zip(pats, actual):
            if p.get("k") == "Bind" and p.get("name") == "self":
                continue
            stmts.append({"k": "Let", "pat": p, "init": a, "sp": list(call["sp"]), "inl": origin})
        stmts.extend(body["stmts"])
        self.inlined[callee] = self.inlined.get(callee, 0) + 1
        return stmts, body.get("expr")

    def rewrite(self, root, fn, stack):
        counter = [max(_max_id(root), _max_id(fn.get("params", []))) + 1]
        blocks = [x for x in hirq.walk(root) if x["k"] == "Block"]
        for b in blocks:
            new = []
            for st in b["stmts"]:
                rep = self._stmt(st, counter, stack)
                if rep is None:
                    new.append(st)
                else:
                    new.extend(rep)
            b["stmts"] = new
            if "expr" in b and b["expr"]["k"] in ("Call", "MethodCall"):
                r = self.expand(b["expr"], counter, stack)
                if r is not None:
                    stmts, tail = r
                    b["stmts"].extend(stmts)
                    if tail is not None:
                        b["expr"] = tail
                    else:
                        del b["expr"]
        # calls left in other positions
        for x in hirq.walk(root):
            if x["k"] in ("Call", "MethodCall"):
                c = x.get("callee")
                if c and self.candidate(c) is not None:
                    self.kept[c] = self.kept.get(c, 0) + 1

    def _stmt(self, st, counter, stack):
        k = st["k"]
        if k in ("Call", "MethodCall"):
            r = self.expand(st, counter, stack)
            if r is None:
                return None
            stmts, tail = r
            return stmts + ([tail] if tail is not None else [])
        if k in ("Assign", "AssignOp") and st["r"]["k"] in ("Call", "MethodCall"):
            r = self.expand(st["r"], counter, stack)
            if r is None or r[1] is None:
                return None
            st["r"] = r[1]
            return r[0] + [st]
        if k == "Let" and "init" in st and st["init"]["k"] in ("Call", "MethodCall") and "else" not in st:
            r = self.expand(st["init"], counter, stack)
            if r is None or r[1] is None:
                return None
            st["init"] = r[1]
            return r[0] + [st]
        return None


def _binds(p, out):
    k = p.get("k")
    if k == "Bind":
        out.append(p)
        if "sub" in p:
            _binds(p["sub"], out)
    elif k in ("Tuple", "TupleStruct", "Or", "Slice"):
        for q in p.get("subs", []):
            _binds(q, out)
    elif k == "Struct":
        for f in p.get("fields", []):
            _binds(f["pat"], out)
    elif k in ("Ref", "Deref", "Box"):
        if "sub" in p:
            _binds(p["sub"], out)
    return out


def disambiguate(fn):
    """Shadowing: a binding introduced while another binding of the same name is in scope gets the name `<name>__s<k>` (and so
    do its uses). Normal forms print locals by name; without this `let mut k = ..` inside a block guarded on an outer `k` would
    be indistinguishable from it. Bindings in disjoint scopes keep their names. Returns the number of renamed bindings."""
    root = fn["hir_raw"]
    rename = {}
    count = {}

    def bind(pat, env):
        for b in _binds(pat, []):
            nm = b["name"]
            sp = b.get("sp")
            if nm == "self" or (sp and sp[3]):
                env[nm] = b["id"]
                continue
            if nm in env and env[nm] != b["id"]:
                count[nm] = count.get(nm, 1) + 1
                rename[b["id"]] = "%s__s%d" % (nm, count[nm])
            env[nm] = b["id"]

    def visit(n, env):
        k = n.get("k")
        if k == "Block":
            e2 = dict(env)
            for st in n["stmts"]:
                if st.get("k") == "Let":
                    if "init" in st:
                        visit(st["init"], e2)
                    if isinstance(st.get("else"), dict):
                        visit(st["else"], e2)
                    bind(st["pat"], e2)
                else:
                    visit(st, e2)
            if "expr" in n:
                visit(n["expr"], e2)
        elif k == "Match":
            visit(n["e"], env)
            for a in n["arms"]:
                e2 = dict(env)
                bind(a["pat"], e2)
                if isinstance(a.get("guard"), dict):
                    visit(a["guard"], e2)
                visit(a["body"], e2)
        elif k == "Closure":
            e2 = dict(env)
            for p_ in n.get("params", []):
                bind(p_, e2)
            visit(n["body"], e2)
        elif k == "Let":
            if "init" in n:
                visit(n["init"], env)
            bind(n["pat"], env)
        else:
            for c in hirq.children(n):
                visit(c, env)

    env0 = {}
    for p_ in fn.get("params", []):
        for b in _binds(p_["pat"], []):
            env0[b["name"]] = b["id"]
    visit(root, env0)
    if not rename:
        return 0
    stack = [root]
    while stack:
        x = stack.pop()
        if isinstance(x, dict):
            if x.get("k") == "Bind" and x.get("id") in rename:
                x["name"] = rename[x["id"]]
            r = x.get("res")
            if isinstance(r, dict) and r.get("local") in rename:
                r["name"] = rename[r["local"]]
            for kk, v in x.items():
                if kk in ("sp", "res"):
                    continue
                if isinstance(v, (dict, list)):
                    stack.append(v)
        elif isinstance(x, list):
            stack.extend(x)
    return len(rename)


def prepare(facts):
    """rewrite fn["hir"] of every function in place (the extractor's tree stays in fn["hir_raw"])"""
    if getattr(facts, "inliner", None) is not None:
        return facts.inliner
    inl = Inliner(facts)
    facts.inliner = inl
    inl.renamed = 0
    for f in facts.fns.values():
        if "hir" in f:
            f["hir_raw"] = f["hir"]
            inl.renamed += disambiguate(f)
    if inl.inv is None:
        return inl
    for fid, f in facts.fns.items():
        if "hir_raw" not in f:
            continue
        # cheap pre-test: does the body call any candidate at all?
        if not any(x["k"] in ("Call", "MethodCall") and x.get("callee") and x["callee"] not in inl.inv and x["callee"] in facts.fns
                   for x in hirq.walk(f["hir_raw"])):
            continue
        root = copy.deepcopy(f["hir_raw"])
        inl.rewrite(root, f, (fid,))
        f["hir"] = root
    # a helper is absorbed when every call to it was inlined
    inl.absorbed = {c for c in inl.inlined if inl.kept.get(c, 0) == 0}
    return inl


def absorbed(facts, fid):
    inl = getattr(facts, "inliner", None)
    return inl is not None and fid in getattr(inl, "absorbed", ())
