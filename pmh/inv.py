"""INV: exact abstract interpretation of straight-line integer mixing functions in two domains,
affine maps mod 2^w and GF(2)-affine maps on w bits, with segmentation and cancellation.

A Value is a dict with optional keys 'aff' = (a, c) meaning x -> a*x + c (mod 2^w) and
'lin' = (cols, c) meaning x -> M x xor c over GF(2)^w where cols[i] is the image of bit i.
Both refer to the current segment's input variable.
"""
from . import hirq


class Top(Exception):
    def __init__(self, msg, node=None):
        Exception.__init__(self, msg)
        self.node = node


def ident(w):
    return {"aff": (1, 0), "lin": ([1 << i for i in range(w)], 0)}


def const(k, w):
    k &= (1 << w) - 1
    return {"aff": (0, k), "lin": ([0] * w, k)}


def lin_apply(cols, x):
    r = 0
    i = 0
    while x:
        if x & 1:
            r ^= cols[i]
        x >>= 1
        i += 1
    return r


def compose(g, f, w):
    """g after f, in every domain both have"""
    mask = (1 << w) - 1
    out = {}
    if "aff" in g and "aff" in f:
        ag, cg = g["aff"]
        af, cf = f["aff"]
        out["aff"] = ((ag * af) & mask, (ag * cf + cg) & mask)
    if "lin" in g and "lin" in f:
        mg, cg = g["lin"]
        mf, cf = f["lin"]
        out["lin"] = ([lin_apply(mg, col) for col in mf], lin_apply(mg, cf) ^ cg)
    return out


def is_identity(v, w):
    if "aff" in v:
        return v["aff"] == (1, 0)
    if "lin" in v:
        return v["lin"] == ([1 << i for i in range(w)], 0)
    return False


def rank_gf2(cols, w):
    rows = list(cols)
    rank = 0
    for bit in range(w):
        piv = None
        for i in range(rank, len(rows)):
            if (rows[i] >> bit) & 1:
                piv = i
                break
        if piv is None:
            continue
        rows[rank], rows[piv] = rows[piv], rows[rank]
        for i in range(len(rows)):
            if i != rank and (rows[i] >> bit) & 1:
                rows[i] ^= rows[rank]
        rank += 1
    return rank


def is_bijection(v, w):
    if "aff" in v:
        return v["aff"][0] & 1 == 1
    if "lin" in v:
        return rank_gf2(v["lin"][0], w) == w
    return False


def describe(v, w):
    parts = []
    if "aff" in v:
        parts.append("x*%d+%d mod 2^%d" % (v["aff"][0], v["aff"][1], w))
    if "lin" in v:
        parts.append("GF(2)-affine rank %d const %#x" % (rank_gf2(v["lin"][0], w), v["lin"][1]))
    return " / ".join(parts) if parts else "T"


# ------------------------------------------------------------------ expression evaluation

def const_of(v, w):
    """the integer if the abstract value is a constant (independent of the segment input), else None"""
    if v is None:
        return None
    if "aff" in v and v["aff"][0] == 0:
        return v["aff"][1]
    if "lin" in v and not any(v["lin"][0]):
        return v["lin"][1]
    return None


def _lit_int(n):
    n = strip(n)
    if n["k"] == "Lit" and n.get("lk") == "int":
        return int(n["v"])
    return None


def strip(n):
    while True:
        if n["k"] == "Block" and not n["stmts"] and "expr" in n:
            n = n["expr"]
        elif n["k"] == "Cast" and n["ty"] == n["e"]["ty"]:
            n = n["e"]
        else:
            return n


def evaluate(n, state, w):
    n = strip(n)
    mask = (1 << w) - 1
    k = n["k"]
    if k == "Lit":
        v = _lit_int(n)
        if v is None:
            raise Top("non-integer literal", n)
        return const(v, w)
    if k == "Path":
        res = n["res"]
        if "local" in res:
            if res["local"] in state:
                return state[res["local"]]
            raise Top("use of a variable with no abstract value: %s" % res["name"], n)
        raise Top("non-local path %s" % hirq.respath(res), n)
    if k == "Unary" and n["op"] == "!":
        v = evaluate(n["e"], state, w)
        out = {}
        if "aff" in v:
            a, c = v["aff"]
            out["aff"] = ((-a) & mask, (-c - 1) & mask)
        if "lin" in v:
            m, c = v["lin"]
            out["lin"] = (m, c ^ mask)
        return out
    if k == "Binary":
        op = n["op"]
        if op in ("<<", ">>"):
            s = _lit_int(n["r"])
            if s is None:
                try:
                    s = const_of(evaluate(n["r"], state, w), w)
                except Top:
                    s = None
            if s is None or not (0 <= s < w):
                raise Top("shift by a non-constant or out-of-range amount", n)
            v = evaluate(n["l"], state, w)
            out = {}
            if op == "<<":
                if "aff" in v:
                    a, c = v["aff"]
                    out["aff"] = ((a << s) & mask, (c << s) & mask)
                if "lin" in v:
                    m, c = v["lin"]
                    out["lin"] = ([(col << s) & mask for col in m], (c << s) & mask)
            else:
                if "lin" in v:
                    m, c = v["lin"]
                    out["lin"] = ([col >> s for col in m], c >> s)
            if not out:
                raise Top("right shift of a value only known as an affine map", n)
            return out
        if op == "^":
            a = evaluate(n["l"], state, w)
            b = evaluate(n["r"], state, w)
            if "lin" in a and "lin" in b:
                return {"lin": ([x ^ y for x, y in zip(a["lin"][0], b["lin"][0])], a["lin"][1] ^ b["lin"][1])}
            raise Top("xor of values not both GF(2)-linear in the segment input", n)
        if op in ("+", "-", "*"):
            # exact on constants when the result stays in range (no overflow panic, no wrap)
            a = const_of(evaluate(n["l"], state, w), w)
            b = const_of(evaluate(n["r"], state, w), w)
            if a is not None and b is not None:
                r_ = a + b if op == "+" else a - b if op == "-" else a * b
                if 0 <= r_ <= mask:
                    return const(r_, w)
        raise Top("operator %s is not one of the exact transfer functions (plain + - * can overflow-panic)" % op, n)
    if k == "MethodCall":
        name = n["name"]
        if name in ("wrapping_add", "wrapping_sub"):
            a = evaluate(n["recv"], state, w)
            b = evaluate(n["args"][0], state, w)
            if "aff" in a and "aff" in b:
                sgn = 1 if name == "wrapping_add" else -1
                return {"aff": ((a["aff"][0] + sgn * b["aff"][0]) & mask, (a["aff"][1] + sgn * b["aff"][1]) & mask)}
            raise Top("%s of values not both affine in the segment input" % name, n)
        if name == "wrapping_mul":
            a = evaluate(n["recv"], state, w)
            b = evaluate(n["args"][0], state, w)
            if "aff" in a and "aff" in b:
                if b["aff"][0] == 0:
                    kk = b["aff"][1]
                    return {"aff": ((a["aff"][0] * kk) & mask, (a["aff"][1] * kk) & mask)}
                if a["aff"][0] == 0:
                    kk = a["aff"][1]
                    return {"aff": ((b["aff"][0] * kk) & mask, (b["aff"][1] * kk) & mask)}
            raise Top("wrapping_mul of two non-constant values", n)
        if name in ("rotate_left", "rotate_right"):
            s = _lit_int(n["args"][0])
            v = evaluate(n["recv"], state, w)
            if s is None or "lin" not in v:
                raise Top("rotate outside the GF(2) domain", n)
            s %= w
            if name == "rotate_right":
                s = (w - s) % w
            rot = lambda x: ((x << s) | (x >> (w - s))) & mask if s else x
            return {"lin": ([rot(c) for c in v["lin"][0]], rot(v["lin"][1]))}
        if name == "fold" and len(n["args"]) == 2 and n["args"][1]["k"] == "Closure" and len(n["args"][1]["params"]) == 2:
            # (lo..hi | lo..=hi).fold(init, |acc, i| body) with constant bounds: unrolled
            rng = strip(n["recv"])
            lo = hi = None
            if rng["k"] == "Call" and str(rng.get("callee", "")).split("::<")[0].endswith("RangeInclusive") and len(rng["args"]) == 2:
                lo, hi = const_of(evaluate(rng["args"][0], state, w), w), const_of(evaluate(rng["args"][1], state, w), w)
                if hi is not None:
                    hi += 1
            elif rng["k"] == "Struct" and {f["name"] for f in rng.get("fields", [])} == {"start", "end"}:
                fs = {f["name"]: f["e"] for f in rng["fields"]}
                lo, hi = const_of(evaluate(fs["start"], state, w), w), const_of(evaluate(fs["end"], state, w), w)
            cl = n["args"][1]
            pa, pi = cl["params"]
            if lo is None or hi is None or hi - lo > 4 * w or pa.get("k") != "Bind" or pi.get("k") != "Bind":
                raise Top("fold over a range whose bounds are not constants", n)
            acc = evaluate(n["args"][0], state, w)
            for i_ in range(lo, hi):
                st2 = dict(state)
                st2[pa["id"]] = acc
                st2[pi["id"]] = const(i_, w)
                acc = evaluate(cl["body"], st2, w)
            return acc
        raise Top("method %s has no exact transfer function" % name, n)
    raise Top("expression kind %s has no exact transfer function" % k, n)


def _uses(n, acc):
    bound = set()
    for x in hirq.walk(n):
        if x["k"] == "Closure":
            for p_ in x.get("params", []):
                if p_.get("k") == "Bind":
                    bound.add(p_["id"])
    for x in hirq.walk(n):
        if x["k"] == "Path" and "local" in x["res"] and x["res"]["local"] not in bound:
            acc.add(x["res"]["local"])


def segments_of(fn, w):
    """returns (segments, problems). segments: list of Values composing (first applied first) to the function."""
    body = fn["hir"]
    if body["k"] != "Block":
        raise Top("function body is not a block", body)
    params = fn["params"]
    if len(params) != 1 or params[0]["pat"]["k"] != "Bind":
        raise Top("expected exactly one by-value parameter")
    # straight-line statements: (target_local, expr, node, uses)
    stmts = []
    # `for _ in 0..N { straight-line assignments }` with literal bounds (at most 16 rounds, the loop variable not used) is the
    # same statements written N times: a hand-unrolled chain and its loop form are the same function
    flat = []
    for st in body["stmts"]:
        if st["k"] == "Match" and st.get("src") == "ForLoopDesugar":
            from .rulelib import for_loops, range_of
            fl = [f for f in for_loops(fn) if f["match"] is st]
            rg = range_of(fl[0]["iter"]) if fl else None
            if rg is not None and strip(rg[0])["k"] == "Lit" and strip(rg[1])["k"] == "Lit" and fl[0]["body"]["k"] == "Block" and "expr" not in fl[0]["body"]:
                try:
                    lo_, hi_ = int(strip(rg[0])["v"]), int(strip(rg[1])["v"]) + rg[2]
                except ValueError:
                    lo_, hi_ = 0, -1
                pat_ = fl[0]["pat"]
                used = pat_.get("k") == "Bind" and any(x["k"] == "Path" and x["res"].get("local") == pat_["id"] for x in hirq.walk(fl[0]["body"]))
                if 0 <= hi_ - lo_ <= 16 and not used and not any(x["k"] in ("Break", "Continue", "Ret", "Loop") for x in hirq.walk(fl[0]["body"])):
                    for _r in range(hi_ - lo_):
                        flat.extend(fl[0]["body"]["stmts"])
                    continue
        flat.append(st)
    for st in flat:
        if hirq.in_log_macro(st):
            continue
        if st["k"] == "Let" and st["pat"]["k"] == "Bind" and "init" in st:
            stmts.append((st["pat"]["id"], st["init"], st, False))
        elif st["k"] == "Assign" and strip(st["l"])["k"] == "Path" and "local" in strip(st["l"])["res"]:
            stmts.append((strip(st["l"])["res"]["local"], st["r"], st, False))
        elif st["k"] == "AssignOp" and strip(st["l"])["k"] == "Path" and "local" in strip(st["l"])["res"]:
            # v op= e  ==> v = v op e
            synth = {"k": "Binary", "op": st["op"].rstrip("="), "l": st["l"], "r": st["r"], "sp": st["sp"], "ty": st["l"]["ty"]}
            stmts.append((strip(st["l"])["res"]["local"], synth, st, True))
        else:
            raise Top("statement is not a straight-line assignment to a local: %s" % hirq.show(st)[:80], st)
    if "expr" not in body:
        raise Top("function has no tail expression")
    tail = strip(body["expr"])
    if tail["k"] != "Path" or "local" not in tail["res"]:
        # `expr` as the tail: treat it as a final assignment to a synthetic variable that is then returned
        RET = -1
        stmts.append((RET, tail, tail, False))
        tail = {"k": "Path", "res": {"local": RET, "name": "<result>"}, "sp": tail.get("sp")}
    # liveness before each statement
    n = len(stmts)
    live_after = [None] * n
    live = {tail["res"]["local"]}
    for i in range(n - 1, -1, -1):
        live_after[i] = set(live)
        tgt, expr, _node, _ = stmts[i]
        live.discard(tgt)
        u = set()
        _uses(expr, u)
        live |= u
    live_before = []
    for i, (tgt, expr, node, _) in enumerate(stmts):
        u = set()
        _uses(expr, u)
        live_before.append((live_after[i] - {tgt}) | u)
    state = {params[0]["pat"]["id"]: ident(w)}
    segs = []
    before = []          # abstract state before each statement (in the segment current at that time)
    last_cut = 0
    i = 0
    while i < n:
        tgt, expr, node, _ = stmts[i]
        if len(before) <= i:
            before.append(dict(state))
        else:
            before[i] = dict(state)
        try:
            state[tgt] = evaluate(expr, state, w)
            i += 1
            continue
        except Top as t1:
            # close the segment at the latest point j <= i (after the previous cut) where exactly one
            # live variable carries the state, and re-interpret statements j..i in the new segment
            done = False
            for j in range(i, last_cut - 1, -1):
                if j == last_cut and j != i and not segs and last_cut == 0:
                    pass
                lb = live_before[j]
                st_j = before[j]
                consts = {v: st_j[v] for v in lb if v in st_j and const_of(st_j[v], w) is not None}
                lbn = [v for v in lb if v not in consts]
                carriers = [v for v in lbn if v in st_j]
                if len(lbn) != 1 or len(carriers) != 1:
                    continue
                c = carriers[0]
                if j == last_cut and st_j[c] == ident(w):
                    continue  # cutting here changes nothing
                trial = dict(consts)
                trial[c] = ident(w)
                ok = True
                for k2 in range(j, i + 1):
                    t2, e2, _n2, _ = stmts[k2]
                    try:
                        trial[t2] = evaluate(e2, trial, w)
                    except Top:
                        ok = False
                        break
                if ok:
                    segs.append((st_j[c], hirq.loc(stmts[j][2])))
                    # states before j+1..i are now relative to the new segment
                    replay = dict(consts)
                    replay[c] = ident(w)
                    for k2 in range(j, i + 1):
                        before[k2] = dict(replay)
                        t2, e2, _n2, _ = stmts[k2]
                        replay[t2] = evaluate(e2, replay, w)
                    state = replay
                    last_cut = j
                    done = True
                    break
            if not done:
                raise Top("%s; no earlier point with a single live variable allows the segment to be closed" % t1, t1.node or node)
            i += 1
    segs.append((state[tail["res"]["local"]], hirq.loc(tail)))
    return segs


def cancel(seq, w):
    """seq: list of Values applied first to last. Returns the irreducible remainder (empty = identity)."""
    stack = []
    for v in seq:
        stack.append(v)
        while len(stack) >= 2:
            g, f = stack[-1], stack[-2]
            c = compose(g, f, w)
            if not c:
                break
            stack.pop()
            stack.pop()
            if not is_identity(c, w):
                # merged, not cancelled; it may still combine with the segment below it
                stack.append(c)
    return stack
