"""Rational-function normal form of arithmetic HIR expressions.

An expression built from + - * / (unary minus, `recip()`, numeric casts dropped, immutable locals resolved by the
position-aware Resolver) is turned into a pair of polynomials (numerator, denominator) over *atoms*: the canonical strings
(nf) of the maximal non-arithmetic sub-expressions. Two expressions are equal as rational functions iff n1*d2 == n2*d1;
that decides equality of formulas independently of how they are parenthesised, of the order of factors, of hoisted
sub-expressions (`let inva = 1. / self.a`) and of `a / b / c` against `a / (b * c)`.

Integer division and floating rounding are NOT modelled: the comparison is about the real-valued formula. A polynomial is
a dict {monomial: Fraction}, a monomial a sorted tuple of atom names (repetition = power)."""
from fractions import Fraction

from . import nf as nfm

INT_TYPES = ("u8", "u16", "u32", "u64", "u128", "usize", "i8", "i16", "i32", "i64", "i128", "isize")
ONE = {(): Fraction(1)}
ZERO = {}


def p_add(a, b, sign=1):
    out = dict(a)
    for m, c in b.items():
        v = out.get(m, 0) + sign * c
        if v == 0:
            out.pop(m, None)
        else:
            out[m] = v
    return out


def p_mul(a, b):
    out = {}
    for m1, c1 in a.items():
        for m2, c2 in b.items():
            m = tuple(sorted(m1 + m2))
            v = out.get(m, 0) + c1 * c2
            if v == 0:
                out.pop(m, None)
            else:
                out[m] = v
    return out


def p_atom(name):
    return {(name,): Fraction(1)}


def p_const(c):
    return {(): Fraction(c)} if c != 0 else {}


class NotRational(Exception):
    pass


def rat(n, res=None, subst=None, _depth=0, alias=None):
    """(num, den) of expression n. subst: {id(node) or local name or atom name: (num, den)} replaces a node / a local / an atom
    by a rational function. alias: field alias table of nf()"""
    n = nfm.strip_casts(n)
    k = n["k"]
    if subst and id(n) in subst:
        return subst[id(n)]
    if k == "Path" and "local" in n["res"]:
        if subst and n["res"]["name"] in subst:
            return subst[n["res"]["name"]]
        if res is not None and _depth < 10:
            d = res.lookup(n["res"]["local"], n)
            if d is not None:
                return rat(d, res, subst, _depth + 1, alias)
    if k == "Lit" and n.get("lk") in ("int", "float"):
        try:
            v = n["v"].replace("_", "")
            for suf in ("f64", "f32", "u64", "u32", "usize", "i64", "i32", "u8", "u16", "i16", "i8", "isize", "u128", "i128"):
                if v.endswith(suf):
                    v = v[: -len(suf)]
            if v.endswith("."):
                v += "0"
            return (p_const(Fraction(v)), ONE)
        except (ValueError, ZeroDivisionError):
            pass
    if k == "Unary" and n["op"] == "-":
        a = rat(n["e"], res, subst, _depth, alias)
        return (p_add(ZERO, a[0], -1), a[1])
    if k == "Binary" and n["op"] == "/" and n.get("ty") in INT_TYPES:
        # integer division truncates: it is not the rational quotient, the whole quotient stays one opaque atom
        name = nfm.nf(n, True, alias=alias, res=res)
        return (p_atom("intdiv:" + name), ONE)
    if k == "Binary" and n["op"] in ("+", "-", "*", "/"):
        a = rat(n["l"], res, subst, _depth, alias)
        b = rat(n["r"], res, subst, _depth, alias)
        op = n["op"]
        if op == "*":
            return (p_mul(a[0], b[0]), p_mul(a[1], b[1]))
        if op == "/":
            return (p_mul(a[0], b[1]), p_mul(a[1], b[0]))
        if a[1] == b[1]:
            return (p_add(a[0], b[0], 1 if op == "+" else -1), a[1])
        return (p_add(p_mul(a[0], b[1]), p_mul(b[0], a[1]), 1 if op == "+" else -1), p_mul(a[1], b[1]))
    if k == "MethodCall" and n["name"] == "recip" and not n["args"]:
        a = rat(n["recv"], res, subst, _depth, alias)
        return (a[1], a[0])
    if k == "Block" and "expr" in n and not n["stmts"]:
        return rat(n["expr"], res, subst, _depth, alias)
    name = nfm.nf(n, True, alias=alias, res=res)
    if subst and name in subst:
        return subst[name]
    return (p_atom(name), ONE)


def equal(a, b):
    return p_mul(a[0], b[1]) == p_mul(b[0], a[1])


def substitute(r, atom, by):
    """replace atom by the rational function `by` in r"""
    def poly(p):
        num, den = ZERO, ONE
        for m, c in p.items():
            tn, td = p_const(c), ONE
            for a in m:
                f = by if a == atom else (p_atom(a), ONE)
                tn, td = p_mul(tn, f[0]), p_mul(td, f[1])
            num, den = p_add(p_mul(num, td), p_mul(tn, den)), p_mul(den, td)
        return num, den
    n_, d_ = poly(r[0]), poly(r[1])
    return (p_mul(n_[0], d_[1]), p_mul(n_[1], d_[0]))


def atoms_of(r):
    return {a for p in r for m in p for a in m}


def linear_in(r, atom):
    """if r = A + C*atom with A, C free of atom: (A, C) as rational functions, else None"""
    if any(atom in m for m in r[1]):
        return None
    A, C = {}, {}
    for m, c in r[0].items():
        cnt = m.count(atom)
        if cnt == 0:
            A[m] = c
        elif cnt == 1:
            mm = list(m)
            mm.remove(atom)
            C[tuple(mm)] = c
        else:
            return None
    return (A, r[1]), (C, r[1])


def show(r):
    def poly(p):
        if not p:
            return "0"
        ts = []
        for m, c in sorted(p.items()):
            s = "*".join(m)
            if not m:
                ts.append(str(c))
            elif c == 1:
                ts.append(s)
            else:
                ts.append("%s*%s" % (c, s))
        return " + ".join(ts)
    if r[1] == ONE:
        return poly(r[0])
    return "(%s) / (%s)" % (poly(r[0]), poly(r[1]))


def parse(text):
    """rational function from a small formula text over identifiers (dots allowed), numbers, + - * / and parentheses"""
    import re
    toks = re.findall(r"\s*([A-Za-z_#][\w.#]*(?:\(\))?|\d+(?:\.\d+)?|[-+*/()])", text)
    pos = [0]

    def peek():
        return toks[pos[0]] if pos[0] < len(toks) else None

    def eat():
        pos[0] += 1
        return toks[pos[0] - 1]

    def atom():
        t = eat()
        if t == "(":
            v = expr()
            assert eat() == ")"
            return v
        if t == "-":
            a = atom()
            return (p_add(ZERO, a[0], -1), a[1])
        if re.match(r"^\d", t):
            return (p_const(Fraction(t)), ONE)
        return (p_atom(t), ONE)

    def term():
        a = atom()
        while peek() in ("*", "/"):
            op = eat()
            b = atom()
            a = (p_mul(a[0], b[0]), p_mul(a[1], b[1])) if op == "*" else (p_mul(a[0], b[1]), p_mul(a[1], b[0]))
        return a

    def expr():
        a = term()
        while peek() in ("+", "-"):
            op = eat()
            b = term()
            a = (p_add(p_mul(a[0], b[1]), p_mul(b[0], a[1]), 1 if op == "+" else -1), p_mul(a[1], b[1]))
        return a
    v = expr()
    assert pos[0] == len(toks), text
    return v


# ---- powers of one base: b^(e1) * b^(e2) = b^(e1+e2) --------------------------------------------------------------
# An atom "B^[e]" stands for base^e with e a polynomial (constant denominators only) in the other atoms. `rat_pow` produces
# such atoms for base.powf(e) / base.powi(e) / base.sqrt() / base itself; `equal_pow` merges them after cross-multiplying.

def _exp_name(poly):
    if not poly:
        return None
    return "B^[%s]" % show((poly, ONE))


def _exp_of(atom):
    assert atom.startswith("B^[")
    num, den = parse(atom[3:-1])
    c = den[()]
    return {m: v / c for m, v in num.items()}


def pow_atom(expr_text_or_rat):
    r = parse(expr_text_or_rat) if isinstance(expr_text_or_rat, str) else expr_text_or_rat
    num, den = r
    if list(den.keys()) != [()]:
        raise NotRational("exponent with a non-constant denominator")
    c = den[()]
    poly = {m: v / c for m, v in num.items()}
    name = _exp_name(poly)
    return (p_atom(name), ONE) if name else (ONE, ONE)


def merge_powers(p):
    out = {}
    for m, c in p.items():
        e = {}
        rest = []
        for a in m:
            if a.startswith("B^["):
                e = p_add(e, _exp_of(a))
            else:
                rest.append(a)
        nm = _exp_name(e)
        mm = tuple(sorted(rest + ([nm] if nm else [])))
        v = out.get(mm, 0) + c
        if v == 0:
            out.pop(mm, None)
        else:
            out[mm] = v
    return out


def equal_pow(a, b):
    return merge_powers(p_mul(a[0], b[1])) == merge_powers(p_mul(b[0], a[1]))


def rat_pow(n, base, res=None, alias=None, rename=None):
    """rat() in which base (an nf string), base.powf(e), base.powi(e), base.sqrt() become power atoms. rename: {local name: atom}"""
    subst = {}
    ren = {k: (p_atom(v), ONE) for k, v in (rename or {}).items()}

    def scan(x, depth=0):
        x = nfm.strip_casts(x)
        if x["k"] == "Path" and "local" in x["res"] and res is not None and depth < 10 and x["res"]["name"] not in ren:
            d = res.lookup(x["res"]["local"], x)
            if d is not None:
                scan(d, depth + 1)
            return
        if x["k"] == "MethodCall" and nfm.nf(x["recv"], True, alias=alias, res=res) == base:
            if x["name"] in ("powf", "powi") and len(x["args"]) == 1:
                subst[id(x)] = pow_atom(rat(x["args"][0], res, ren, alias=alias))
                return
            if x["name"] == "sqrt" and not x["args"]:
                subst[id(x)] = pow_atom("1/2")
                return
        if x["k"] in ("Field", "Path") and nfm.nf(x, True, alias=alias, res=res) == base:
            subst[id(x)] = pow_atom("1")
            return
        from . import hirq
        for c in hirq.children(x):
            scan(c, depth)
    scan(n)
    subst.update(ren)
    return rat(n, res, subst, alias=alias)
