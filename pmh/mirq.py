"""Queries over MIR bodies emitted by the driver."""


def callee_of(t):
    return t.get("resolved") or t.get("callee") or ""


def show_place(p, body=None):
    s = "_%d" % p["l"]
    if body is not None:
        nm = body["locals"][p["l"]].get("name")
        if nm:
            s = nm
    for e in p["proj"]:
        if e == "deref":
            s = "(*%s)" % s
        elif isinstance(e, dict) and "f" in e:
            s += "." + (e["name"] or str(e["f"]))
        elif isinstance(e, dict) and "idx" in e:
            s += "[_%d]" % e["idx"]
        elif isinstance(e, dict) and "cidx" in e:
            s += "[%d]" % e["cidx"]
        else:
            s += "{%s}" % e
    return s


def show_op(o, body=None):
    if "copy" in o:
        return show_place(o["copy"], body)
    if "move" in o:
        return "move " + show_place(o["move"], body)
    return "const " + o.get("const", "?")


def op_place(o):
    return o.get("copy") or o.get("move")


def blocks(body):
    return body["blocks"]


def succs(body, i, unwind=False):
    t = body["blocks"][i]["term"]
    s = list(t["succs"])
    if not unwind and t.get("unwind") is not None:
        s = [x for x in s if x != t["unwind"]]
    return s


def reachable(body, start=0):
    seen = {start}
    stack = [start]
    while stack:
        b = stack.pop()
        for s in succs(body, b):
            if s not in seen:
                seen.add(s)
                stack.append(s)
    return seen


def dominators(body):
    """immediate-dominator-free simple iterative dominator sets over non-unwind edges"""
    n = len(body["blocks"])
    reach = reachable(body)
    preds = {i: [] for i in range(n)}
    for i in reach:
        for s in succs(body, i):
            preds[s].append(i)
    dom = {i: set(reach) for i in reach}
    dom[0] = {0}
    changed = True
    order = sorted(reach)
    while changed:
        changed = False
        for i in order:
            if i == 0:
                continue
            ps = [p for p in preds[i] if p in reach]
            new = set.intersection(*[dom[p] for p in ps]) if ps else set()
            new = new | {i}
            if new != dom[i]:
                dom[i] = new
                changed = True
    return dom


def calls(body):
    """[(block index, terminator)] for call terminators in reachable non-cleanup blocks"""
    out = []
    for i, b in enumerate(body["blocks"]):
        if b.get("cleanup"):
            continue
        if b["term"]["k"] == "call":
            out.append((i, b["term"]))
    return out


def dump(body, only=None):
    lines = []
    for i, b in enumerate(body["blocks"]):
        if b.get("cleanup"):
            continue
        lines.append("bb%d:" % i)
        for st in b["stmts"]:
            if st["k"] == "assign":
                rv = st["rv"]
                ops = ", ".join(show_op(o, body) for o in rv.get("ops", []))
                pl = show_place(rv["place"], body) if "place" in rv else ""
                lines.append("   %s = %s(%s%s) %s" % (show_place(st["place"], body), rv["k"] + ":" + rv.get("op", rv.get("castk", rv.get("aggr", ""))), ops, pl, ""))
        t = b["term"]
        if t["k"] == "call":
            lines.append("   %s = CALL %s(%s) -> %s   @%s:%d %s" % (show_place(t["dest"], body), callee_of(t), ", ".join(show_op(a, body) for a in t["args"]), t["target"], t["sp"][0], t["sp"][1], t["sp"][5]))
        elif t["k"] == "assert":
            lines.append("   ASSERT %s %s -> %s @%d %s" % (t["msg"], t.get("op", ""), t["target"], t["sp"][1], t["sp"][5]))
        elif t["k"] == "switch":
            lines.append("   SWITCH %s %s else %s" % (show_op(t["discr"], body), t["vals"], t["otherwise"]))
        else:
            lines.append("   %s %s" % (t["k"].upper(), t["succs"]))
    return "\n".join(lines)
