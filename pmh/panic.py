"""PANIC: panic-edge inventory on MIR.

An edge is a MIR Assert terminator or a call to a panicking entry point. key = fn|kind|detail|ordinal
(ordinal among edges with the same first three components, in block order)."""
import re

from . import mirq, hirq

PANIC_CALLEES = [
    (re.compile(r"^(core|std)::panicking::"), "panic"),
    (re.compile(r"^std::rt::(panic_fmt|begin_panic)"), "panic"),
    (re.compile(r"^(core|std)::option::Option::<.*>::(unwrap|expect)$"), "Option::unwrap"),
    (re.compile(r"^(core|std)::result::Result::<.*>::(unwrap|expect|unwrap_err|expect_err)$"), "Result::unwrap"),
    (re.compile(r"^<.* as (core|std)::ops::Index(Mut)?<.*>>::index(_mut)?$"), "index"),
    (re.compile(r"^(core|std)::slice::<impl \[.*\]>::(copy_from_slice|clone_from_slice|swap|split_at|split_at_mut|chunks|chunks_exact|windows|rotate_left|rotate_right)(::<.*>)?$"), "slice-op"),
    (re.compile(r"^(alloc|std)::vec::Vec::<.*>::(remove|insert|swap_remove|drain|split_off)(::<.*>)?$"), "vec-op"),
    (re.compile(r"^(core|std)::cell::RefCell::<.*>::(borrow|borrow_mut)$"), "refcell"),
    (re.compile(r"unreachable_unchecked|core::intrinsics::abort|std::process::(abort|exit)"), "abort"),
    # std functions with documented panics on some arguments
    (re.compile(r"^(core|std)::f(32|64)::<impl f(32|64)>::clamp$|^(core|std)::cmp::Ord::clamp$|^<.* as (core|std)::cmp::Ord>::clamp$|^(core|std)::cmp::(min|max)_by_key$"), "clamp (panics if min > max or NaN)"),
    (re.compile(r"^(core|std)::num::<impl [iu](8|16|32|64|128|size)>::(pow|abs|div_euclid|rem_euclid|ilog|ilog2|ilog10|isqrt|next_power_of_two|next_multiple_of|div_ceil|strict_\w+)$"), "integer op (panics on overflow / zero)"),
    (re.compile(r"::(step_by|copy_within)(::<.*>)?$"), "std op with panicking precondition"),
    (re.compile(r"^(std|core)::iter::Iterator::(step_by)$"), "std op with panicking precondition"),
    (re.compile(r"^(std|alloc)::string::String::(remove|insert|insert_str|truncate|split_off|drain|replace_range)$"), "string op"),
    (re.compile(r"^(std)::sync::(Mutex|RwLock).*::(lock|read|write)$"), "lock"),
    (re.compile(r"^(std)::time::(Instant|SystemTime|Duration)::"), "time op"),
]

_GEN = re.compile(r"::<[^<>]*(?:<[^<>]*(?:<[^<>]*>[^<>]*)*>[^<>]*)*>")


def strip_generics(s):
    prev = None
    while prev != s:
        prev = s
        s = _GEN.sub("", s)
    return s


def classify_call(t):
    c = mirq.callee_of(t)
    d = t.get("callee") or ""
    for (rx, kind) in PANIC_CALLEES:
        if rx.search(c) or rx.search(d):
            return kind
    return None


def bodies_of(facts, fid, closures=True):
    out = [(fid, facts.fn(fid)["mir"])]
    if closures:
        for k, f in facts.fns.items():
            if k.startswith(fid + "::{closure"):
                out.append((k, f["mir"]))
    return out


def edges_of(facts, fid, closures=True):
    """panic edges of one function (and its closures)"""
    out = []
    counter = {}
    for (bid, body) in bodies_of(facts, fid, closures):
        reach = mirq.reachable(body)
        for i, b in enumerate(body["blocks"]):
            if b.get("cleanup") or i not in reach:
                continue
            t = b["term"]
            kind = detail = None
            if t["k"] == "assert":
                kind = "assert"
                detail = t["msg"] + (":" + t["op"] if t.get("op") else "") + "(" + ",".join(t.get("op_tys", [])) + ")"
            elif t["k"] == "call":
                ck = classify_call(t)
                if ck:
                    kind = "call"
                    # detail: the panicking entry plus what it is applied to
                    callee = mirq.callee_of(t)
                    detail = ck + ":" + callee
                    if ck in ("Option::unwrap", "Result::unwrap"):
                        src = producer_of(body, i, t["args"][0]) if t["args"] else None
                        detail = ck + " on " + (strip_generics(src) if src else "?")
                    elif ck == "panic":
                        msg = ""
                        for a in t["args"]:
                            if "const" in a and a.get("ty", "").endswith("str"):
                                msg = a["const"]
                        detail = "panic" + (":" + msg if msg else ":" + strip_generics(callee))
                    elif ck == "index":
                        detail = "index:" + (t["arg_tys"][0] if t.get("arg_tys") else "?")
            if kind is None:
                continue
            base = (fid, kind, detail)
            k = counter.get(base, 0)
            counter[base] = k + 1
            out.append({
                "fn": fid, "body": bid, "kind": kind, "detail": detail, "ord": k,
                "key": "PANIC|%s|%s:%s|%d" % (fid, kind, detail, k),
                "where": "%s:%d" % (t["sp"][0], t["sp"][1]), "line": t["sp"][1], "col": t["sp"][2],
                "expn": (hirq._mname(t["sp"][4]), hirq._mname(t["sp"][5])) if t["sp"][3] else ("", ""),
                "block": i, "term": t, "mir": body,
            })
    return out


def producer_of(body, blk, operand):
    """callee that produced the value of `operand` (a moved/copied local), looking through moves"""
    p = mirq.op_place(operand)
    if p is None:
        return None
    target = p["l"]
    for _ in range(6):
        found = None
        for b in body["blocks"]:
            t = b["term"]
            if t["k"] == "call" and t["dest"]["l"] == target and not t["dest"]["proj"]:
                return mirq.callee_of(t)
            for st in b["stmts"]:
                if st["k"] == "assign" and st["place"]["l"] == target and not st["place"]["proj"] and st["rv"]["k"] == "use":
                    q = mirq.op_place(st["rv"]["ops"][0])
                    if q is not None and not q["proj"]:
                        found = q["l"]
        if found is None:
            return None
        target = found
    return None


def root_local(body, operand):
    """the user local a moved temp comes from (follows plain moves)"""
    p = mirq.op_place(operand)
    if p is None:
        return None
    target = p["l"]
    for _ in range(6):
        nxt = None
        for b in body["blocks"]:
            for st in b["stmts"]:
                if st["k"] == "assign" and st["place"]["l"] == target and not st["place"]["proj"]:
                    rv = st["rv"]
                    if rv["k"] == "use":
                        q = mirq.op_place(rv["ops"][0])
                        if q is not None and not q["proj"]:
                            nxt = q["l"]
                    elif rv["k"] == "ref" and not rv["place"]["proj"]:
                        nxt = rv["place"]["l"]
        if nxt is None:
            return target
        target = nxt
    return target


def unwrap_guarded_by_check(edge):
    """DISCHARGED: unwrap/expect of local X where an is_err()/is_none() test of X dominates and its true
    branch cannot reach the unwrap"""
    body = edge["mir"]
    t = edge["term"]
    if not t["args"]:
        return None
    x = root_local(body, t["args"][0])
    dom = mirq.dominators(body)
    blk = edge["block"]
    for d in dom.get(blk, ()):
        dt = body["blocks"][d]["term"]
        if dt["k"] != "call":
            continue
        c = mirq.callee_of(dt)
        if not re.search(r"::(is_err|is_none)$", strip_generics(c)):
            continue
        if not dt["args"] or root_local(body, dt["args"][0]) != x:
            continue
        nxt = dt["target"]
        sw = body["blocks"][nxt]["term"]
        if sw["k"] != "switch":
            continue
        false_t = [b for (v, b) in sw["vals"] if v == "0"]
        true_t = sw["otherwise"]
        if not false_t:
            continue
        if blk in mirq.reachable(body, false_t[0]) and blk not in mirq.reachable(body, true_t):
            return "dominated by %s() test of the same value at %s:%d whose true branch leaves" % (c.split("::")[-1], dt["sp"][0], dt["sp"][1])
    return None


def fn_never_fails(facts, fid):
    """in-crate callee constructs no Err/None and uses no `?`: its Result/Option is always Ok/Some"""
    f = facts.fn(fid)
    for n in hirq.walk(f["hir"]):
        if n["k"] == "Path" and n["res"].get("path", "").endswith(("::Err", "::None")) and not hirq.from_expansion(n):
            return False
        if n["k"] == "Match" and n.get("src", "").startswith("TryDesugar"):
            return False
        if n["k"] in ("Ret",) and False:
            return False
    return True


def incrate_callees(facts, fid):
    """in-crate functions called (directly) by fid or its closures"""
    out = []
    for (bid, body) in bodies_of(facts, fid):
        for i, t in mirq.calls(body):
            c = t.get("callee") or ""
            if c in facts.fns and c != fid and "{closure" not in c and c not in out:
                out.append(c)
    return out
