"""RNGPROTO: the CFG path language of calls on the per-item generator must be accepted by a DFA."""
from collections import deque

from . import mirq, hirq
from .rulelib import SEED_FNS, short

GEN = "rand_xoshiro::Xoshiro256PlusPlus"

DFA = {
    "start": {"S": "qS", "E": "qE"},
    "qS": {"E": "qE"},
    "qE": {"U": "qU", "S": "qS"},
    "qU": {"E": "qE", "S": "qS", "P": "qP", "K": "qP"},
    "qP": {"E": "qE", "S": "qS"},
}


def event_of(t, wrappers=()):
    """classify a MIR call terminator w.r.t. the per-item generator"""
    c = mirq.callee_of(t)
    tys = t.get("arg_tys", [])
    direct = any(ty in (GEN, "&mut " + GEN, "&" + GEN) for ty in tys)
    if short(t.get("callee", "")) in SEED_FNS and GEN in c:
        return "S"
    if t.get("callee", "") in wrappers:
        return "S"
    if direct:
        if "ExpRestricted01 as" in c and c.split("::<")[0].endswith("::sample"):
            return "E"
        if "Uniform<usize> as" in c and c.split("::<")[0].endswith("::sample"):
            return "U"
        if c.startswith("<" + GEN + " as std::clone::Clone>::clone") or c.startswith("<" + GEN + " as core::clone::Clone>::clone"):
            return "K"
        return "X:" + c
    if t.get("callee", "").endswith("Vec::<T, A>::push") or short(t.get("callee", "")) == "push":
        if any(GEN in ty for ty in tys[1:]):
            return "P"
    return None


def top_level_loops(fn):
    body = fn["hir"]
    out = []
    if body["k"] != "Block":
        return out
    for st in body["stmts"] + ([body["expr"]] if "expr" in body else []):
        if st["k"] == "Loop" or (st["k"] == "Match" and st.get("src") == "ForLoopDesugar"):
            out.append((st["sp"][1], st["sp"][6]))
    return out


def check(fn, wrappers=()):
    """returns (n_events, rejections) where a rejection is (state, event, path of (event, line))"""
    body = fn["mir"]
    loops = top_level_loops(fn)
    ev = {}
    for i, t in mirq.calls(body):
        e = event_of(t, wrappers)
        if e:
            line = t["sp"][1]
            region = -1
            for k, (lo, hi) in enumerate(loops):
                if lo <= line <= hi:
                    region = k
            ev[i] = (e, line, region)
    regions_with_events = {r for (_e, _l, r) in ev.values() if r >= 0}
    use_regions = len(regions_with_events) >= 2
    start = (0, "start", None)
    seen = {start: None}
    dq = deque([start])
    rejections = []
    while dq:
        node = dq.popleft()
        blk, q, reg = node
        nq, nreg = q, reg
        if blk in ev:
            e, line, region = ev[blk]
            if use_regions and region != reg:
                nq, nreg = "start", region
            tgt = DFA.get(nq, {}).get(e)
            if tgt is None:
                # reconstruct the event path
                path = [(e, line)]
                cur = node
                while seen[cur] is not None:
                    cur = seen[cur]
                    if cur[0] in ev:
                        path.append((ev[cur[0]][0], ev[cur[0]][1]))
                path.reverse()
                rejections.append((nq, e, path[-8:]))
                continue
            nq = tgt
        for s in mirq.succs(body, blk):
            nxt = (s, nq, nreg)
            if nxt not in seen:
                seen[nxt] = node
                dq.append(nxt)
    # one report per (state, event, line)
    uniq = {}
    for (q, e, path) in rejections:
        uniq.setdefault((q, e, path[-1][1]), (q, e, path))
    return len(ev), list(uniq.values()), sorted(set(ev.values()), key=lambda x: x[1])
